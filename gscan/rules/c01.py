"""C01 - per-channel power splits exactly into signal + ASE + NLI; 1/GSNR = 1/OSNR + 1/SNR_NLI  (DESIGN 4, C01)

Inductive invariant proof over the SpectralInformation API:
 R1 ownership   : only SpectralInformation writes the three ratio fields and _pch
 R2 base case   : every constructor call site establishes sum = 1 (factory) or maps same-named fields under one
                  common selector (demux / mux); __init__ stores every per-channel field with one argsort result
 R3 step        : every method that writes a ratio preserves S+A+N under S+A+N = 1 and implements the stated power
                  update; every method that writes only the power is a pure per-channel scaling
 R4 reported    : gsnr = S/(A+N), snr_lin = S/A, snr_nli = S/N (=> the reciprocal identity as a polynomial identity),
                  the *_db / opt_* getters, and the Transceiver attribute <-> getter pairing
 R5 split/merge : band mux folds the WHOLE list, demux selects whole channels by the in-band test (shared with C07-R2)
 R6 published   : the figures published after adding transmitter / add-drop noise receive one common added-noise term
                  computed from the RAW figures, so the identity survives update_snr (shared with C13-R2)
 Rm memo          : every memoisation construct in the functions behind this property is keyed by everything it reads.
 Rp presence      : optional numeric fields are tested with `is None` / membership, never by truthiness (0 is a value).
 R7 NLI sign      : the NLI spreading over channels uses sign-preserving operations only (shared with C02-R5).
 R8 named views   : every <x>_dbm getter returns watt2dbm(self.<x>); carriers fills each Channel field from the same-named attribute.
 R9 no shallow copy / patch: spectrum objects are never shallow-copied, share arrays never patched element-wise.
"""
import ast

from ..model import AnchorMissing, CannotAnalyse, walk_no_nested, Cls
from ..poly import Rat, C, mk_atom, subst, REG, fn
from ..vg import Evaluator, spec, atoms_of, path_of, vkey, Const, flatten

LEVEL = 'proof'
RATIOS = ('_signal_ratio', '_ase_ratio', '_nli_ratio')
POWER = '_pch'
PROTECTED = RATIOS + (POWER,)
PER_CHANNEL = ['frequency', 'baud_rate', 'slot_width', 'pch', 'signal_ratio', 'ase_ratio', 'nli_ratio', 'roll_off',
               'chromatic_dispersion', 'pmd', 'pdl', 'latency', 'delta_pdb_per_channel', 'tx_osnr', 'tx_power', 'label']

EXPLANATION = (
    "Static inductive-invariant proof, by value-graph normal forms over the source of gnpy/core/info.py and "
    "elements.py: (R1) no code outside class SpectralInformation stores the ratio fields or _pch (all stores in "
    "gnpy/ enumerated); (R2) all constructor call sites establish or preserve signal+ase+nli=1 per channel and "
    "__init__ permutes all 16 per-channel fields with one argsort; (R3) each mutator that writes a ratio keeps the "
    "sum equal to 1 under the hypothesis that it was 1, and is the stated power transfer; each power-only mutator "
    "is a pure scaling; (R4) gsnr/snr_lin/snr_nli are S/(A+N), S/A, S/N so 1/GSNR = 1/OSNR + 1/SNR_NLI is a "
    "polynomial identity, the dB/0.1nm getters are their lin2db twins and Transceiver records each figure from the "
    "matching getter. Decides the bookkeeping identity for every spectrum and every operation sequence; does not "
    "decide that each share stays in [0,1] (needs run-time sign of the injected noise)."
)
ASSUMPTIONS = [
    "numpy arithmetic on the per-channel arrays is element-wise; real arithmetic (floating-point rounding ignored)",
    "objects are only mutated through Python attribute stores / the enumerated container mutators (no ctypes, no "
    "object.__setattr__ tricks beyond the scanned setattr/__dict__ forms)",
    "the value-graph engine (gscan/poly.py, gscan/vg.py) is correct",
]
RULE_TEXT = ("obligations are enumerated from the source: every attribute store in gnpy/, every constructor call "
             "site of SpectralInformation, every method of the class that writes a protected field, every reported "
             "getter; an obligation is non-trivial when it matched a construct and compared two normal forms")


def si_class(repo):
    return repo.cls('SpectralInformation', 'gnpy.core.info')


# --------------------------------------------------------------------------------------------- R1
def r1_ownership(ctx):
    repo = ctx.repo
    owner = si_class(repo)
    inside = 0
    for f in repo.all_funcs():
        for n in walk_no_nested(f.node):
            tgts = []
            if isinstance(n, ast.Assign):
                tgts = n.targets
            elif isinstance(n, (ast.AugAssign, ast.AnnAssign)):
                tgts = [n.target]
            elif isinstance(n, ast.Delete):
                tgts = n.targets
            elif isinstance(n, ast.Call) and isinstance(n.func, ast.Name) and n.func.id in ('setattr', 'delattr') \
                    and len(n.args) >= 2 and isinstance(n.args[1], ast.Constant) and n.args[1].value in PROTECTED:
                site = f'{f.loc(n)} {f.qual}'
                ctx.check('R1.ownership', site, f.cls is owner, f'{f.qual}|{ast.unparse(n)}',
                          f'{n.func.id}() on protected field {n.args[1].value} outside SpectralInformation')
                continue
            flat = []
            for t in tgts:
                flat += [x for x in ast.walk(t) if isinstance(x, (ast.Attribute, ast.Subscript))]
            for t in flat:
                name = None
                if isinstance(t, ast.Attribute) and t.attr in PROTECTED and isinstance(t.ctx, (ast.Store, ast.Del)):
                    name = t.attr
                elif isinstance(t, ast.Subscript) and isinstance(t.ctx, (ast.Store, ast.Del)):
                    # x._pch[i] = ...   /  x.__dict__['_pch'] = ...
                    if isinstance(t.value, ast.Attribute) and t.value.attr in PROTECTED:
                        name = t.value.attr
                    elif isinstance(t.value, ast.Attribute) and t.value.attr == '__dict__' and \
                            isinstance(t.slice, ast.Constant) and t.slice.value in PROTECTED:
                        name = t.slice.value
                if name is None:
                    continue
                site = f'{f.loc(n)} {f.qual}'
                if f.cls is owner:
                    inside += 1
                    ctx.ok('R1.ownership', site, f'store to {name} inside the owner class')
                else:
                    ctx.bad('R1.ownership', site, f'{f.qual}|{ast.unparse(n)}',
                            f'store to protected field {name} outside SpectralInformation: {ast.unparse(n)}')
    # module-level statements too
    for m in repo.modules.values():
        for n in m.tree.body:
            if isinstance(n, (ast.FunctionDef, ast.ClassDef)):
                continue
            for x in ast.walk(n):
                if isinstance(x, ast.Attribute) and x.attr in PROTECTED and isinstance(x.ctx, ast.Store):
                    ctx.bad('R1.ownership', f'{m.rel}:{x.lineno}', f'{m.name}|{ast.unparse(n)}',
                            f'module-level store to protected field {x.attr}')
    ctx.need('R1.ownership', 8, '3 ratio stores in __init__, 3 in add_nli, 3 in add_ase, _pch in __init__ and setter')


# --------------------------------------------------------------------------------------------- R2
def ctor_sites(repo):
    owner = si_class(repo)
    out = []
    for f in repo.all_funcs():
        for n in walk_no_nested(f.node):
            if isinstance(n, ast.Call):
                r = repo.resolve_call(f, n)
                if r is owner:
                    out.append((f, n))
    return out


def init_permutation(ctx, rule='R2.init-permutation'):
    """SpectralInformation.__init__ stores every per-channel field as param[argsort(frequency)] with ONE permutation
    (shared by C01, C03, C07: channel order of the caller is irrelevant, arrays stay aligned)"""
    repo = ctx.repo
    owner = si_class(repo)
    init = repo.method(owner, '__init__')
    params = [p for p in init.params if p != 'self']
    missing = [p for p in PER_CHANNEL if p not in params]
    if missing:
        raise AnchorMissing(f'SpectralInformation.__init__ lost parameters {missing}')
    ev = Evaluator(repo, init).run_function()
    order = None
    for p in params:
        site = f'{init.loc()} {init.qual} field _{p}'
        v = ev.exit_field(f'self._{p}')
        a = v.single_atom() if isinstance(v, Rat) else None
        ok = a is not None and a.kind == 'fn' and a.name == 'sub' and path_of(a.args[0]) == p
        if ok:
            idx = a.args[1]
            if order is None:
                order = idx
            # exactly the fancy index argsort(frequency): a fancy index COPIES; a conditional `slice(None)` shortcut would make the
            # object share its arrays with the caller (in-place updates of one share would then leak into another array)
            ok = idx == order and isinstance(idx, str) and (idx == 'argsort(frequency)' or idx.startswith('argsort(frequency,'))
        ctx.check(rule, site, ok, f'{init.qual}|_{p}',
                  f'self._{p} is not {p}[argsort(frequency)] with the one common permutation (a fancy index, which also copies the '
                  'caller\'s array)',
                  f'self._{p} = {vkey(v)}')
    ctx.need(rule, 16, '16 per-channel constructor parameters')
    return params


def r2_base(ctx):
    repo = ctx.repo
    owner = si_class(repo)
    params = init_permutation(ctx)
    # --- call sites
    sites = ctor_sites(repo)
    for f, call in sites:
        site = f'{f.loc(call)} {f.qual}'
        types = {}
        for p in f.params:
            ann = next((a.annotation for a in f.node.args.args if a.arg == p), None)
            if p == 'self' and f.cls is owner:
                types['self'] = owner
            elif ann is not None and 'SpectralInformation' in ast.unparse(ann):
                types[p] = owner
        ev = Evaluator(repo, f, types=types).run_function()
        rec = next((c for c in ev.calls if c.node is call), None)
        if rec is None:
            ctx.cannot('R2.ctor-site', site, 'constructor call not reached by the evaluator')
            continue
        kw = dict(rec.kwargs)
        for i, a in enumerate(rec.args):
            if i < len(params):
                kw[params[i]] = a
        lacking = [p for p in PER_CHANNEL if p not in kw]
        if lacking:
            ctx.bad('R2.ctor-site', site, f'{f.qual}|ctor-missing|{",".join(lacking)}',
                    f'constructor call does not pass {lacking}')
            continue
        s, a, n = kw['signal_ratio'], kw['ase_ratio'], kw['nli_ratio']
        sa = s.single_atom() if isinstance(s, Rat) else None
        if sa is not None and sa.kind == 'fn' and sa.name == 'ones':
            # factory: ones / zeros / zeros of one common length
            aa, na = (a.single_atom() if isinstance(a, Rat) else None), (n.single_atom() if isinstance(n, Rat) else None)
            ok = aa is not None and na is not None and aa.name == 'zeros' and na.name == 'zeros' and \
                vkey(sa.args) == vkey(aa.args) == vkey(na.args)
            ctx.check('R2.ctor-site', site, ok, f'{f.qual}|factory-shares',
                      'factory does not start from signal=1, ase=0, nli=0 of one common length',
                      f'signal_ratio={vkey(s)} ase_ratio={vkey(a)} nli_ratio={vkey(n)}')
            continue
        # mapping site: every keyword is the same expression shape over the same-named source field(s)
        shapes = {}
        for p in PER_CHANNEL:
            v = kw[p]
            flds = [at for at in atoms_of(v).values() if at.kind == 'fld']
            names = {at.name.split('.')[-1].lstrip('_') for at in flds}
            srcs = sorted({at.name.rsplit('.', 1)[0] for at in flds})
            okname = names == {p}

            def ren(at, p=p):
                if at.kind == 'fld' and at.name.split('.')[-1].lstrip('_') == p:
                    return Rat.of(mk_atom('fld', at.name.rsplit('.', 1)[0] + '.FIELD'))
                return None
            shape = vkey(subst(v, ren)) if isinstance(v, Rat) else vkey(v)
            shapes[p] = shape
            ctx.check('R2.ctor-field', f'{site} {p}=', okname and bool(flds), f'{f.qual}|ctor|{p}',
                      f'constructor argument {p} is built from field(s) {sorted(names)} of {srcs}, expected {p}',
                      f'{p} = {vkey(v)}')
        ref = shapes['frequency']
        odd = sorted(p for p, sh in shapes.items() if sh != ref)
        ctx.check('R2.ctor-site', site, not odd, f'{f.qual}|ctor-shape|{",".join(odd)}',
                  f'arguments {odd} are not selected/merged the same way as frequency ({ref})',
                  f'common shape {ref}')
    ctx.need('R2.ctor-site', 3, '__add__, create_arbitrary_spectral_information, select_channels')


# --------------------------------------------------------------------------------------------- R3
def writers(repo, owner):
    """methods (not __init__, not setters) whose exit state writes a protected field, with their evaluators"""
    out = []
    for name, f in sorted(owner.methods.items()):
        if name == '__init__':
            continue
        try:
            ev = Evaluator(repo, f, types={'self': owner}).run_function()
        except CannotAnalyse:
            # only relevant if it textually touches a protected field or a mutator
            src = ast.unparse(f.node)
            if any(p in src for p in PROTECTED) or 'pch' in src:
                raise
            continue
        w = {p.split('.', 1)[1] for p in ev.written_paths() if p.startswith('self.')}
        if w & set(PROTECTED):
            out.append((f, ev, w & set(PROTECTED)))
    return out


def r3_step(ctx):
    repo = ctx.repo
    owner = si_class(repo)
    S, A, N, P = (Rat.of(mk_atom('fld', f'self.{x}')) for x in ('_signal_ratio', '_ase_ratio', '_nli_ratio', '_pch'))

    def under_inv(v):     # substitute A = 1 - S - N
        return subst(v, lambda at: (C(1) - S - N) if at.kind == 'fld' and at.name == 'self._ase_ratio' else None)
    found = {}
    for f, ev, w in writers(repo, owner):
        site = f'{f.loc()} {f.qual}'
        found[f.name] = f
        S1, A1, N1, P1 = (ev.exit_field(f'self.{x}') for x in ('_signal_ratio', '_ase_ratio', '_nli_ratio', '_pch'))
        if w & set(RATIOS):
            allthree = set(RATIOS) <= w
            ctx.check('R3.all-three', site, allthree, f'{f.qual}|all-three',
                      f'{f.name} writes {sorted(w & set(RATIOS))} but not all three shares')
            tot = under_inv(S1 + A1 + N1)
            ctx.check('R3.sum-conserved', site, tot.eq(C(1)), f'{f.qual}|sum',
                      f'{f.name}: signal+ase+nli after the update is not 1 under the hypothesis that it was 1',
                      f"S'+A'+N' = {tot.key()[:300]}")
            xs = [p for p in f.params if p != 'self']
            if f.name in ('add_ase', 'add_nli') and len(xs) == 1:
                x = Rat.sym(xs[0])
                if f.name == 'add_ase':
                    obl = [("p' = p + ase", P1, P + x), ("S'p' = S p (signal power untouched)", S1 * P1, S * P),
                           ("N'p' = N p (NLI power untouched)", N1 * P1, N * P),
                           ("A'p' = A p + ase", A1 * P1, A * P + x)]
                else:
                    obl = [("p' = p (pure transfer)", P1, P), ("N'p' = N p (1 - nli/p) + nli", N1 * P1, N * P * (C(1) - x / P) + x),
                           ("S' = S (1 - nli/p)", S1, S * (C(1) - x / P)), ("A' = A (1 - nli/p)", A1, A * (C(1) - x / P))]
                for text, got, want in obl:
                    ctx.check('R3.power-update', f'{site} {text}', got.eq(want), f'{f.qual}|{text}',
                              f'{f.name}: {text} does not hold', f'got {got.key()[:200]}  want {want.key()[:200]}')
        else:
            # power-only mutator: p' = p * k, k independent of the state
            k = P1 / P
            dep = [a.name for a in atoms_of(k).values() if a.kind == 'fld' and a.name.startswith('self.')]
            ctx.check('R3.pure-scaling', site, not dep, f'{f.qual}|scaling',
                      f'{f.name}: the power update is not a per-channel scaling p*k with k independent of the spectrum state',
                      f"p'/p = {k.key()[:200]}")
    for need in ('add_ase', 'add_nli', 'apply_attenuation_lin', 'apply_gain_lin'):
        if need not in found:
            raise AnchorMissing(f'SpectralInformation.{need} no longer writes the power bookkeeping')
    ctx.need('R3.sum-conserved', 2, 'add_ase, add_nli')
    ctx.need('R3.power-update', 8, '4 identities each for add_ase and add_nli')
    ctx.need('R3.pure-scaling', 4, 'apply_attenuation_lin/db, apply_gain_lin/db')


# --------------------------------------------------------------------------------------------- R4
def getter_value(repo, owner, name, base='self'):
    g = repo.method(owner, name, 'getter')
    ev = Evaluator(repo, g, types={'self': owner}).run_function()
    return ev.ret(), g


def r4_reported(ctx):
    repo = ctx.repo
    owner = si_class(repo)
    b = {k: Rat.of(mk_atom('fld', f'self.{v}')) for k, v in
         {'S': '_signal_ratio', 'A': '_ase_ratio', 'N': '_nli_ratio', 'P': '_pch', 'B': '_baud_rate'}.items()}
    lin = {'gsnr': 'S/(A+N)', 'snr_lin': 'S/A', 'snr_nli': 'S/N', 'signal': 'S*P', 'ase': 'A*P', 'nli': 'N*P'}
    vals = {}
    for name, sp in lin.items():
        v, g = getter_value(repo, owner, name)
        vals[name] = v
        want = spec(sp, b)
        ctx.check('R4.linear', f'{g.loc()} {g.qual}', isinstance(v, Rat) and v.eq(want), f'{g.qual}|{sp}',
                  f'{name} is not {sp}', f'got {vkey(v)[:200]}')
    g, a, n = vals['gsnr'], vals['snr_lin'], vals['snr_nli']
    ok = all(isinstance(x, Rat) and not x.is_zero() for x in (g, a, n)) and g.inv().eq(a.inv() + n.inv())
    ctx.check('R4.identity', 'SpectralInformation.gsnr/snr_lin/snr_nli', ok, 'identity',
              '1/gsnr = 1/snr_lin + 1/snr_nli is not a polynomial identity of the three getters')
    tot = vals['signal'] + vals['ase'] + vals['nli']
    inv = subst(tot, lambda at: (C(1) - b['S'] - b['N']) if at.name == 'self._ase_ratio' else None)
    ctx.check('R4.identity', 'SpectralInformation.signal+ase+nli', inv.eq(b['P']), 'power-identity',
              'signal + ase + nli is not the channel power under S+A+N=1', f'got {inv.key()[:200]}')
    for db, twin in (('gsnr_db', 'gsnr'), ('snr_lin_db', 'snr_lin'), ('snr_nli_db', 'snr_nli')):
        v, gg = getter_value(repo, owner, db)
        want = spec('10*log10(X)', {'X': vals[twin]})
        vals[db] = v
        ctx.check('R4.db', f'{gg.loc()} {gg.qual}', isinstance(v, Rat) and v.eq(want), f'{gg.qual}|lin2db',
                  f'{db} is not lin2db({twin})', f'got {vkey(v)[:200]}')
    for opt, twin in (('opt_gsnr_db', 'gsnr_db'), ('opt_snr_lin_db', 'snr_lin_db'), ('opt_snr_nli_db', 'snr_nli_db')):
        v, gg = getter_value(repo, owner, opt)
        want = spec('X - 10*log10(12.5e9/B)', {'X': vals[twin], 'B': b['B']})
        vals[opt] = v
        ctx.check('R4.db', f'{gg.loc()} {gg.qual}', isinstance(v, Rat) and v.eq(want), f'{gg.qual}|0.1nm',
                  f'{opt} is not {twin} - lin2db(12.5e9/baud_rate)', f'got {vkey(v)[:200]}')
    # Transceiver pairing
    trx = repo.cls('Transceiver', 'gnpy.core.elements')
    calc = repo.method(trx, '_calc_snr')
    sip = next((p for p in calc.params if p != 'self'), None)
    if sip is None:
        raise AnchorMissing('Transceiver._calc_snr has no spectrum parameter')
    ev = Evaluator(repo, calc, types={'self': trx, sip: owner}).run_function()

    def on_param(v):
        return subst(v, lambda at: Rat.of(mk_atom('fld', sip + at.name[4:])) if at.kind == 'fld' and
                     at.name.startswith('self.') else None)
    pairing = {'raw_osnr_ase': 'snr_lin_db', 'raw_osnr_ase_01nm': 'opt_snr_lin_db', 'raw_osnr_nli': 'snr_nli_db',
               'raw_snr': 'gsnr_db', 'raw_snr_01nm': 'opt_gsnr_db'}
    for attr, getter in pairing.items():
        got = ev.exit_field(f'self.{attr}')
        want = on_param(vals[getter])
        ctx.check('R4.transceiver', f'{calc.loc()} {calc.qual} {attr}', isinstance(got, Rat) and got.eq(want),
                  f'{calc.qual}|{attr}', f'Transceiver.{attr} is not SpectralInformation.{getter}',
                  f'got {vkey(got)[:160]}')
    public = {'osnr_ase': 'raw_osnr_ase', 'osnr_ase_01nm': 'raw_osnr_ase_01nm', 'osnr_nli': 'raw_osnr_nli',
              'snr': 'raw_snr', 'snr_01nm': 'raw_snr_01nm'}
    for attr, raw in public.items():
        got, want = ev.exit_field(f'self.{attr}'), ev.exit_field(f'self.{raw}')
        ctx.check('R4.transceiver', f'{calc.loc()} {calc.qual} {attr}', isinstance(got, Rat) and got.eq(want),
                  f'{calc.qual}|{attr}', f'Transceiver.{attr} is not initialised from {raw}', f'got {vkey(got)[:160]}')
    ctx.need('R4.linear', 6)
    ctx.need('R4.db', 6)
    ctx.need('R4.transceiver', 10)


def r5_split_merge(ctx):
    """band split / merge neither create nor lose power: mux folds the whole list, demux selects whole channels"""
    from .c07 import r2_fold
    r2_fold(ctx, 'R5.split-merge')


def r6_published(ctx):
    """the figures published after adding transmitter / add-drop noise keep the identity: snr and osnr_ase receive the
    same added-noise term computed from the RAW figures (shared with C13-R2), so 1/GSNR - 1/OSNR_ASE = 1/SNR_NLI still holds"""
    from .c13 import r2_update_snr

    class P:
        def __init__(self, c):
            self.c = c

        def __getattr__(self, n):
            return getattr(self.c, n)

        def check(self, rule, *a, **k):
            return self.c.check('R6.published-figures', *a, **k)

        def need(self, rule, *a, **k):
            return None
    r2_update_snr(P(ctx))
    ctx.need('R6.published-figures', 8)



def r7_nli_sign(ctx):
    """R7: the NLI handed to add_nli is never negative by construction of its spreading over the channels (sign-preserving
    operations only, no extrapolation; shared with C02-R5): a negative NLI share would push the signal share above 1"""
    from .c02 import r5_nli_interp
    from .common import proxy
    r5_nli_interp(proxy(ctx, 'R7', needs=True))


def r8_named_views(ctx):
    """R8: the named read-outs report the power they are named after: every `<x>_dbm` getter of SpectralInformation returns
    watt2dbm(self.<x>), and `carriers` fills each field of the Channel record from the attribute of the same name (signal, ase, nli
    in the record's own order)"""
    repo = ctx.repo
    owner = si_class(repo)
    n = 0
    for name, g in sorted(owner.getters.items()):
        if not name.endswith('_dbm'):
            continue
        stem = name[:-4]
        rets = [x for x in walk_no_nested(g.node) if isinstance(x, ast.Return)]
        ok = len(rets) == 1 and ast.unparse(rets[0].value) == f'watt2dbm(self.{stem})'
        n += 1
        ctx.check('R8.named-views', f'{g.loc()} {g.qual}', ok, f'{g.qual}|dbm', f'{name} does not return watt2dbm(self.{stem})',
                  ast.unparse(rets[0].value) if rets else '')
    ch = repo.module('gnpy.core.info').classes.get('Channel')
    fields = None
    if ch is not None:
        for b in ch.node.bases:
            if isinstance(b, ast.Call) and getattr(b.func, 'id', '') == 'namedtuple' and len(b.args) == 2:
                parts = []
                for c_ in ast.walk(b.args[1]):
                    if isinstance(c_, ast.Constant) and isinstance(c_.value, str):
                        parts.append(c_.value)
                fields = ' '.join(parts).split()
    car = owner.getters.get('carriers')
    ok = False
    det = ''
    if fields and car is not None:
        zips = [c for c in ast.walk(car.node) if isinstance(c, ast.Call) and getattr(c.func, 'id', '') == 'zip']
        if len(zips) == 1:
            got = [ast.unparse(a) for a in zips[0].args]
            det = str(got)
            ok = got == [f'self.{x}' for x in fields] and any(isinstance(x, ast.Call) and getattr(x.func, 'id', '') == 'Channel'
                                                              for x in ast.walk(car.node))
    ctx.check('R8.named-views', f'{car.loc() if car else ""} carriers', ok, f'{owner.qual}.carriers|fields',
              f'carriers does not fill the Channel record {fields} from the attributes of the same names, in that order', det)
    ctx.need('R8.named-views', 6)



def r9_no_shallow_copy_or_patch(ctx):
    """R9: the three share arrays of a spectrum belong to ONE spectrum object and are only written whole or scaled by the
    SpectralInformation methods: (a) no shallow copy (copy.copy / copy()) of a spectrum object anywhere in gnpy/core and
    gnpy/topology - the copy would share the arrays that add_nli / add_ase update in place, so propagating the copy corrupts the
    original; (b) no element-wise patch (`self._x_ratio[...] = ..`) of a share array - individual carriers would leave signal + ASE +
    NLI = 1"""
    from .common import site, key
    repo = ctx.repo
    n = 0
    for m in repo.modules.values():
        if not (m.name.startswith('gnpy.core') or m.name.startswith('gnpy.topology')):
            continue
        for f in list(m.functions.values()) + [g for c in m.classes.values() for g in c.all_funcs()]:
            ann = {a.arg: ast.unparse(a.annotation) for a in f.node.args.args + f.node.args.kwonlyargs if a.annotation is not None}
            for c in walk_no_nested(f.node):
                if isinstance(c, ast.Call) and ((isinstance(c.func, ast.Name) and c.func.id == 'copy') or
                                                (isinstance(c.func, ast.Attribute) and c.func.attr == 'copy' and
                                                 isinstance(c.func.value, ast.Name) and c.func.value.id == 'copy')) and len(c.args) == 1:
                    a = c.args[0]
                    nm = a.id if isinstance(a, ast.Name) else (a.attr if isinstance(a, ast.Attribute) else '')
                    is_si = 'SpectralInformation' in ann.get(nm, '') or nm in ('spectral_info', 'si', 'spectrum', 'spc_info', 'input_si', 'ref_si')
                    n += 1
                    ctx.check('R9.no-shallow-copy', f'{site(f, c)} {ast.unparse(c)[:40]}', not is_si, key(f, f'shallow-copy|{nm}'),
                              f'{ast.unparse(c)} is a shallow copy of a spectrum: it shares the signal / ASE / NLI share arrays that add_nli and '
                              'add_ase update in place - propagating the copy changes the original (and the sum of the shares of the original '
                              'no longer matches its powers)')
    si = repo.cls('SpectralInformation', 'gnpy.core.info')
    for f in si.all_funcs():
        for t in walk_no_nested(f.node):
            if isinstance(t, ast.Subscript) and isinstance(t.ctx, (ast.Store, ast.Del)) and isinstance(t.value, ast.Attribute) and \
                    t.value.attr in ('_signal_ratio', '_nli_ratio', '_ase_ratio') and \
                    not (isinstance(getattr(t, '_parent', None), ast.AugAssign)):
                ctx.bad('R9.no-shallow-copy', site(f, t), key(f, f'patch|{t.value.attr}'),
                        f'{ast.unparse(t)} is patched element-wise: the carriers it touches no longer have signal + ASE + NLI = 1 '
                        '(each share array is written whole, from the other two)')
    ctx.check('R9.no-shallow-copy', 'scan', True, 'C01|shallow-scan', '', f'{n} copy() call(s) judged; element-wise stores into the share arrays: none')


from ..memo import rule_for as _memo_rule

RULES_MEMO = ('Rm.memo', _memo_rule('C01', 'a stale share or GSNR would be reported after the spectrum was updated'))


from ..presence import rule_for as _presence_rule

RULES_PRESENCE = ('Rp.presence', _presence_rule('C01', 'a legal zero would be read as missing'))

RULES = [('R6.published-figures', r6_published), ('R5.split-merge', r5_split_merge), ('R1.ownership', r1_ownership), ('R2.base', r2_base), ('R3.step', r3_step), ('R4.reported', r4_reported), RULES_MEMO, RULES_PRESENCE, ('R7.nli-sign', r7_nli_sign), ('R8.named-views', r8_named_views), ('R9.no-shallow-copy', r9_no_shallow_copy_or_patch)]


def proof_keys(ctx):
    return {'checker_cmd': './vcheck C01 --tier quick',
            'trusted_base': ['gscan value-graph engine (poly.py, vg.py, model.py)', 'numpy element-wise semantics',
                             'real arithmetic instead of IEEE floating point', 'Python attribute-store semantics']}
