"""C13 - a service is accepted exactly when its worst channel clears the mode's threshold.

 R1 verdict sites : the three verdict comparisons use the same metric round(min_ch(snr_01nm - total_penalty), 2) of the
                    receiver of the path that was just propagated, against OSNR + sys_margins of the mode under test
                    (fixed mode: blocked iff metric < threshold -> reason in BLOCKING_NOMODE; automatic: accepted iff
                    metric > threshold -> returns that mode).
 R2 no accumulation: update_snr outputs depend on raw_* / baud rate / its arguments only, never on themselves; they
                    are snr_sum of the raw twin with one common added-noise term (bandwidth-referred for the
                    signal-bandwidth pair); the loop adds each supplied OSNR once and skips None.
 R3 once each     : in the mode loop the transmitter OSNR appended to the add/drop list is removed again before the
                    next mode; in propagate it is appended once and update_snr is called once per end; one append per
                    ROADM crossing; calc_penalties follows update_snr on both ends.
 R4 penalties     : _calc_penalty interpolates with left = right = inf; calc_penalties always rebuilds the penalty
                    table and the total from the table it is given (no early exit keeping stale values).
 R6 tables        : penalty tables normalised at load: sorted by impairment value, boundaries and penalties from the same
                    rows, a (0, 0) row added only when all boundaries are positive.
 R5 order         : baud rates descending, then modes by (bit rate, offset) descending; first passing mode returned.
 Rm memo          : every memoisation construct in the functions behind this property is keyed by everything it reads.
 Rp presence      : optional numeric fields are tested with `is None` / membership, never by truthiness (0 is a value).
 Rs sorted        : every numpy.interp abscissa is ascending by construction or by a recorded precondition.
 R7 first reason  : a blocking reason already set is never overwritten by a later check (shared with C19-R9).
 R8 mode copy    : the selected mode is copied onto the request completely and identically in every copy block.
 Rn arg roles     : a variable named like a parameter of the callee is handed to that parameter (no exchanged roles).
 R9 path lookup  : each internal ROADM path is registered with the impairment profile looked up for the same (from, to) pair.
"""
import ast

from ..model import AnchorMissing, CannotAnalyse, walk_no_nested
from ..cfg import CFG, fmt_path
from ..poly import Rat, C, mk_atom, lem_exp, lem_log, subst, REG
from ..vg import loopvar, Evaluator, vkey, atoms_of, Const
from ..dataflow import names_in
from .common import calls_to, site, key, kwarg, stmt_of, enclosing, attr_stores, module_list_literal

RQ = 'gnpy.topology.request'
EL = 'gnpy.core.elements'
EXPLANATION = (
    "The three verdict comparisons are extracted from the value graph of compute_path_with_disjunction and "
    "propagate_and_optimize_mode (x[argmin(x)] = min(x)), and compared on metric, receiver, threshold, orientation "
    "and consequence; Transceiver.update_snr is shown to be a function of the raw figures and its arguments only, "
    "with the four outputs tied by exact identities to one added-noise term; the OSNR list handling in the mode loop "
    "is checked on the flow graph (append matched by removal before the back edge); penalty interpolation bounds and "
    "the exploration order are checked. Not decided: the numbers themselves."
)
ASSUMPTIONS = ["real arithmetic; round(., 2) uninterpreted but identical on both sides",
               "numpy interp semantics for left/right"]
RULE_TEXT = ("sites: each comparison mentioning snr_01nm in the two planning functions; the four outputs of update_snr; "
             "each append/del on the OSNR list; interp call; the two sort calls")


def verdicts(repo, fname):
    f = repo.func(RQ, fname)
    ev = Evaluator(repo, f, no_inline={'propagate', 'propagate_and_optimize_mode', 'find_reversed_path', 'penalty_msg',
                                       'filter_si', 'create_input_spectral_information', 'design_network'}).run_function()
    out = []
    for k, (op, a, b) in ev.cond_info.items():
        if 'snr_01nm' in k and op in ('lt', 'le'):
            out.append((op, a, b, k))
    return f, ev, out


def split_metric(m):
    """m = round(min(A.snr_01nm - A.total_penalty), 2) -> A key or None"""
    a = m.single_atom() if isinstance(m, Rat) else None
    if a is None or a.kind != 'fn' or a.name != 'round' or len(a.args) != 2 or not isinstance(a.args[1], Rat) or \
            not a.args[1].eq(C(2)):
        return None
    inner = a.args[0]
    ia = inner.single_atom() if isinstance(inner, Rat) else None
    if ia is None or ia.name != 'min' or not isinstance(ia.args[0], Rat):
        return None
    x = ia.args[0]
    if len(x.n.t) != 2 or not x.d.is_const():
        return None
    pos = neg = None
    for k, c in x.n.t.items():
        if len(k) != 1 or k[0][1] != 1:
            return None
        at = REG[k[0][0]]
        if at.kind == 'fn' and at.name == 'attr':
            if c == 1 and at.args[1] == 'snr_01nm':
                pos = at.args[0]
            elif c == -1 and at.args[1] == 'total_penalty':
                neg = at.args[0]
    if pos is None or neg is None or vkey(pos) != vkey(neg):
        return None
    return vkey(pos)


def r1_verdicts(ctx):
    repo = ctx.repo
    nomode = set(module_list_literal(repo, RQ, 'BLOCKING_NOMODE'))
    f, ev, vs = verdicts(repo, 'compute_path_with_disjunction')
    n_fixed = 0
    for op, a, b, k in vs:
        recv = split_metric(a)
        rev = split_metric(b)
        st = f'{site(f)} verdict {k[:60]}'
        if recv is None and rev is not None:
            ctx.bad('R1.verdict', st, key(f, f'orientation|{k[:80]}'),
                    'fixed-mode verdict compares threshold < metric: the request is blocked when it passes')
            continue
        if recv is None:
            ctx.bad('R1.verdict', st, key(f, f'metric|{k[:80]}'),
                    'a feasibility comparison does not use round(min over channels of (snr_01nm - total_penalty), 2) of '
                    'one receiver', f'{vkey(a)[:200]} {op} {vkey(b)[:120]}')
            continue
        n_fixed += 1
        thr = vkey(b)
        ok_thr = 'OSNR' in thr and 'sys_margins' in thr and "'SI'" in thr and "'default'" in thr and \
            len(b.n.t) == 2 and all(c == 1 for c in b.n.t.values())
        ctx.check('R1.verdict', f'{st} threshold', ok_thr and op == 'lt', key(f, f'threshold|{recv[:60]}'),
                  'fixed-mode verdict does not block exactly when metric < required OSNR + system margin',
                  f'{op}: metric vs {thr[:160]}')
        ctx.check('R1.verdict', f'{st} receiver', recv.endswith(",'-1')"), key(f, f'receiver|{recv[:60]}'),
                  'the verdict is not read from the last element (receiver) of the propagated path', recv[:160])
    ctx.check('R1.verdict', f'{site(f)} both directions judged', n_fixed == 2, key(f, 'two-fixed-sites'),
              f'{n_fixed} fixed-mode verdicts found, expected forward and reverse')
    # the receiver judged is the path that was propagated, and the consequence is a NOMODE reason
    for c in calls_to(f, {'propagate'}):
        arg = c.args[0] if c.args else None
        nm = arg.id if isinstance(arg, ast.Name) else None
        body = enclosing(c, ast.If)
        later = [n for n in walk_no_nested(f.node) if isinstance(n, ast.If) and n.lineno > c.lineno and
                 'snr01nm' in ast.unparse(n.test) or (isinstance(n, ast.If) and n.lineno > c.lineno and 'snr_01nm' in ast.unparse(n.test))]
        nxt = min(later, key=lambda n: n.lineno) if later else None
        ok = False
        reason_ok = False
        if nxt is not None and nm is not None:
            # the metric variable is built from <nm>[-1]
            src = [s for s in walk_no_nested(f.node) if isinstance(s, ast.Assign) and c.lineno < s.lineno < nxt.lineno and
                   'snr_01nm' in ast.unparse(s.value)]
            ok = bool(src) and all(f'{nm}[-1]' in ast.unparse(s.value) for s in src) or f'{nm}[-1]' in ast.unparse(nxt.test)
            lits = [v.value for s in ast.walk(nxt) if isinstance(s, ast.Assign) for t in s.targets
                    if isinstance(t, ast.Attribute) and t.attr == 'blocking_reason' for v in [s.value]
                    if isinstance(v, ast.Constant)]
            reason_ok = bool(lits) and all(l in nomode for l in lits)
        ctx.check('R1.verdict', f'{site(f, c)} judged path = propagated path', ok, key(f, f'judged|{nm}'),
                  f'after propagate({nm}, ..) the verdict is not taken from {nm}[-1]')
        ctx.check('R1.verdict', f'{site(f, c)} consequence', reason_ok, key(f, f'reason|{nm}'),
                  f'a failed fixed-mode verdict does not set a blocking reason from BLOCKING_NOMODE {sorted(nomode)}')
    # automatic mode
    g, evg, vg_ = verdicts(repo, 'propagate_and_optimize_mode')
    n_auto = 0
    for op, a, b, k in vg_:
        recv = split_metric(b)
        st = f'{site(g)} verdict {k[:60]}'
        if recv is None:
            ctx.bad('R1.verdict', st, key(g, f'metric|{k[:80]}'),
                    'automatic-mode verdict is not  threshold < round(min(snr_01nm - total_penalty), 2)  of one receiver '
                    '(accepted iff the metric is above the threshold)', f'{vkey(a)[:160]} {op} {vkey(b)[:160]}')
            continue
        n_auto += 1
        thr = vkey(a)
        ok_thr = 'OSNR' in thr and 'sys_margins' in thr and ('this_mode' in thr or 'loopvar' in thr)
        ctx.check('R1.verdict', f'{st} threshold', bool(ok_thr) and op == 'lt' and len(a.n.t) == 2, key(g, 'auto-threshold'),
                  "automatic-mode verdict does not accept exactly when metric > mode['OSNR'] + system margin",
                  f'{thr[:160]} {op} metric')
        ctx.check('R1.verdict', f'{st} receiver', recv.endswith(",'-1')"), key(g, 'auto-receiver'),
                  'the verdict is not read from the receiver of the propagated path', recv[:120])
    ctx.check('R1.verdict', f'{site(g)} one automatic site', n_auto == 1, key(g, 'one-auto-site'),
              f'{n_auto} automatic-mode verdict(s) found')
    # accepted -> returns the mode under test
    ok = False
    for n in walk_no_nested(g.node):
        if isinstance(n, ast.If) and 'snr_01nm' in ast.unparse(n.test):
            r = next((s for s in n.body if isinstance(s, ast.Return)), None)
            loop = enclosing(n, ast.For)
            lv = loop.target.id if loop is not None and isinstance(loop.target, ast.Name) else None
            ok = r is not None and isinstance(r.value, ast.Tuple) and len(r.value.elts) == 2 and \
                isinstance(r.value.elts[1], ast.Name) and r.value.elts[1].id == lv and \
                lv in names_in(n.test)
    ctx.check('R1.verdict', f'{site(g)} returns the accepted mode', ok, key(g, 'returns-mode'),
              'the mode returned on acceptance is not the mode whose threshold was just tested')
    ctx.need('R1.verdict', 12)


def r2_update_snr(ctx):
    repo = ctx.repo
    trx = repo.cls('Transceiver', EL)
    f = repo.method(trx, 'update_snr')
    ev = Evaluator(repo, f, types={'self': trx}).run_function()
    outs = {'osnr_ase': ('raw_osnr_ase', True), 'snr': ('raw_snr', True),
            'osnr_ase_01nm': ('raw_osnr_ase_01nm', False), 'snr_01nm': ('raw_snr_01nm', False)}
    vals = {}
    for o, (raw, _) in outs.items():
        v = ev.exit_field(f'self.{o}')
        vals[o] = v
        flds = {a.name for a in atoms_of(v).values() if a.kind == 'fld' and a.name.startswith('self.')}
        selfdep = sorted(x for x in flds if x.split('.', 1)[1] in outs)
        ctx.check('R2.no-accumulation', f'{site(f)} {o}', not selfdep and f'self.{raw}' in flds, key(f, f'dep|{o}'),
                  f'{o} is computed from {sorted(flds)}: it must derive from {raw} (and never from a previously updated figure), '
                  'otherwise recomputing for successive modes accumulates the added noise', f'{o} = {vkey(v)[:200]}')
    B = Rat.of(mk_atom('fld', 'self.baud_rate'))

    def term(o):
        raw = Rat.of(mk_atom('fld', f'self.{outs[o][0]}'))
        v = vals[o]
        if not isinstance(v, Rat):
            return None
        return lem_exp(-v * C(1) / C(10), 'exp10') - lem_exp(-raw / C(10), 'exp10')
    T = {o: term(o) for o in outs}
    if all(t is not None for t in T.values()):
        ctx.check('R2.formula', f'{site(f)} same added noise (signal bandwidth)', T['snr'].eq(T['osnr_ase']),
                  key(f, 'same-term-bw'), 'snr and osnr_ase do not receive the same added-noise term')
        ctx.check('R2.formula', f'{site(f)} same added noise (0.1 nm)', T['snr_01nm'].eq(T['osnr_ase_01nm']),
                  key(f, 'same-term-01nm'), 'snr_01nm and osnr_ase_01nm do not receive the same added-noise term')
        ref = C(12500000000)
        ctx.check('R2.formula', f'{site(f)} bandwidth referral', T['snr'].eq(T['snr_01nm'] * B / ref), key(f, 'bw-referral'),
                  'the added noise (given in 0.1 nm) is not referred to the signal bandwidth by baud_rate / 12.5 GHz',
                  f'{T["snr"].key()[:160]}')
        ctx.check('R2.formula', f'{site(f)} noise is added', not T['snr_01nm'].is_zero(), key(f, 'adds'),
                  'update_snr adds nothing')
    # the accumulation loop
    lbs = list(ev.loop_bodies.values())
    ok = False
    det = ''
    if len(lbs) == 1:
        lb = lbs[0]
        for nm, pre in lb['pre'].items():
            post = lb['post'].get(nm)
            if isinstance(pre, Rat) and pre.is_zero() and isinstance(post, Rat):
                lid = sorted(ev.loop_bodies)[0]
                cur = loopvar(lid, nm)
                from ..poly import gamma_conds, restrict
                conds = [c for c in gamma_conds(post) if c.startswith('isnone(')]
                det = post.key()
                if len(conds) == 1:
                    s_ = lb['node'].target.id if isinstance(lb['node'].target, ast.Name) else '?'
                    sv = loopvar(lid, s_)
                    want = lem_exp(-sv / C(10), 'exp10')
                    ok = (restrict(post, {conds[0]: True}) - cur).is_zero() and \
                        (restrict(post, {conds[0]: False}) - cur).eq(want) and conds[0] == f'isnone({sv.key()})'
    ctx.check('R2.formula', f'{site(f)} each supplied OSNR once', ok, key(f, 'loop'),
              'the loop over the supplied OSNR values does not add 10^(-s/10) exactly once per value that is not None, '
              'starting from 0', det[:200])
    ctx.need('R2.no-accumulation', 4)
    ctx.need('R2.formula', 5)


def list_ops(f, lname):
    """(kind, node) for append / del [-1] / pop on local list lname"""
    out = []
    for n in walk_no_nested(f.node):
        if isinstance(n, ast.Call) and isinstance(n.func, ast.Attribute) and isinstance(n.func.value, ast.Name) and \
                n.func.value.id == lname and n.func.attr in ('append', 'pop'):
            out.append((n.func.attr, n))
        elif isinstance(n, ast.Delete):
            for t in n.targets:
                if isinstance(t, ast.Subscript) and isinstance(t.value, ast.Name) and t.value.id == lname:
                    out.append(('del', n))
    return out


def r3_once(ctx):
    repo = ctx.repo
    for fname in ('propagate', 'propagate_and_optimize_mode'):
        f = repo.func(RQ, fname)
        g = CFG(f.node)
        us = [c for c in calls_to(f, {'update_snr'}) if any(isinstance(a, ast.Starred) for a in c.args)]
        if len(us) != 1:
            raise AnchorMissing(f'{fname}: expected one update_snr(*list) call, found {len(us)}')
        lname = us[0].args[0].value.id if isinstance(us[0].args[0].value, ast.Name) else None
        ops = list_ops(f, lname)
        roadm_app = [n for k, n in ops if k == 'append' and 'get_impairment' in ast.unparse(n)]
        tx_app = [n for k, n in ops if k == 'append' and 'get_impairment' not in ast.unparse(n)]
        rem = [n for k, n in ops if k in ('del', 'pop')]
        s = site(f)
        ok = len(roadm_app) == 1 and 'roadm-osnr' in ast.unparse(roadm_app[0]) and \
            isinstance(enclosing(roadm_app[0], ast.If), ast.If) and 'Roadm' in ast.unparse(enclosing(roadm_app[0], ast.If).test)
        ctx.check('R3.once', f'{s} one add/drop OSNR per ROADM crossing', ok, key(f, 'roadm-append'),
                  'the add/drop OSNR of a crossed ROADM is not appended exactly once per crossing')
        # handed over in the same call instead of being appended first:  update_snr(*list, <tx osnr>)
        extra = [a for a in us[0].args[1:] if not isinstance(a, ast.Starred)]
        direct = not tx_app and len(extra) == 1 and len(us[0].args) == 2 and ast.unparse(extra[0]).endswith('tx_osnr') or \
            (not tx_app and len(extra) == 1 and len(us[0].args) == 2 and fname == 'propagate_and_optimize_mode' and "['tx_osnr']" in ast.unparse(extra[0]))
        ctx.check('R3.once', f'{s} transmitter OSNR appended once', len(tx_app) == 1 or bool(direct), key(f, 'tx-append'),
                  f'the transmitter OSNR is appended {len(tx_app)} times to the list given to update_snr')
        if len(tx_app) == 1:
            an, un = g.node_of(stmt_of(f, tx_app[0])), g.node_of(stmt_of(f, us[0]))
            # update_snr(*list) comes after the append on every path
            p = g.path_avoiding(g.entry, un, lambda n: n.id == an.id, skip_labels=('exc',))
            ctx.check('R3.once', f'{s} receiver update after the append', p is None, key(f, 'update-after-append'),
                      'the receiver can be updated without the transmitter OSNR', fmt_path(f, p) if p else '')
            loop = enclosing(tx_app[0], ast.For)
            if loop is not None and fname == 'propagate_and_optimize_mode':
                head = g.node_of(loop)
                rids = {g.node_of(stmt_of(f, r)).id for r in rem if g.node_of(stmt_of(f, r)) is not None}
                p = g.path_avoiding(an, head, lambda n: n.id in rids, skip_labels=('exc',))
                ctx.check('R3.once', f'{s} appended OSNR removed before the next mode', p is None, key(f, 'append-del'),
                          'the transmitter OSNR appended for one mode is still in the list when the next mode is evaluated '
                          '(it would be counted twice)', fmt_path(f, p) if p else '')
                # and removed only after it was used
                for r in rem:
                    rn = g.node_of(stmt_of(f, r))
                    q = g.path_avoiding(an, rn, lambda n: n.id == un.id, skip_labels=('exc',))
                    ctx.check('R3.once', f'{site(f, r)} removal after use', q is None, key(f, 'del-after-use'),
                              'the transmitter OSNR is removed before the receiver update uses it', fmt_path(f, q) if q else '')
            elif fname == 'propagate':
                ctx.check('R3.once', f'{s} append outside the element loop', loop is None, key(f, 'tx-append-in-loop'),
                          'the transmitter OSNR is appended inside a loop')
            # calc_penalties follows update_snr at both ends
        elif direct:
            ctx.ok('R3.once', f'{s} receiver update after the append', 'the transmitter OSNR is an argument of the update itself')
            ctx.ok('R3.once', f'{s} append outside the element loop', 'nothing is appended: the list holds the ROADM contributions only')
        cps = calls_to(f, {'calc_penalties'})
        ups = calls_to(f, {'update_snr'})
        ends_u = sorted(ast.unparse(c.func.value) for c in ups)
        ends_p = sorted(ast.unparse(c.func.value) for c in cps)
        ctx.check('R3.once', f'{s} penalties at both ends', ends_u == ends_p == ['path[-1]', 'path[0]'], key(f, 'both-ends'),
                  f'update_snr on {ends_u} but calc_penalties on {ends_p}: both ends must get both')
        for c in cps:
            tgt = ast.unparse(c.func.value)
            u = next((x for x in ups if ast.unparse(x.func.value) == tgt), None)
            if u is None:
                continue
            q = g.path_avoiding(g.entry, g.node_of(stmt_of(f, c)), lambda n: n.id == g.node_of(stmt_of(f, u)).id,
                                skip_labels=('exc',))
            ctx.check('R3.once', f'{site(f, c)} penalties after update ({tgt})', q is None, key(f, f'pen-after|{tgt}'),
                      f'calc_penalties on {tgt} can run before its update_snr')
    ctx.need('R3.once', 14)


def r4_penalties(ctx):
    repo = ctx.repo
    trx = repo.cls('Transceiver', EL)
    f = repo.method(trx, '_calc_penalty')
    ic = calls_to(f, {'interp'})
    ok = False
    if ic:
        l, r = kwarg(ic[0], 'left', 3), kwarg(ic[0], 'right', 4)
        isinf = lambda e: e is not None and ast.unparse(e).replace('"', "'") in ("float('inf')", 'inf', 'np.inf', 'numpy.inf', 'math.inf')
        ok = isinf(l) and isinf(r)
        xs = ast.unparse(ic[0].args[1]) if len(ic[0].args) > 1 else ''
        ys = ast.unparse(ic[0].args[2]) if len(ic[0].args) > 2 else ''
        ok = ok and 'up_to_boundary' in xs and 'penalty_value' in ys
    ctx.check('R4.penalties', site(f), ok, key(f, 'inf-outside'),
              'an impairment outside the penalty table does not give an infinite penalty on both sides '
              '(interp(..., up_to_boundary, penalty_value, left=inf, right=inf))',
              ast.unparse(ic[0]) if ic else 'no interp call')
    cp = repo.method(trx, 'calc_penalties')
    ev = Evaluator(repo, cp, types={'self': trx}).run_function()
    n_out = len(ev.outcomes)
    always = all('self.penalties' in st and 'self.total_penalty' in st for _, _, st in ev.outcomes)
    tot = ev.exit_field('self.total_penalty')
    dep = 'self.penalties' not in {a.name for a in atoms_of(tot).values() if a.kind == 'fld'}
    ctx.check('R4.penalties', f'{site(cp)} rebuilt on every call', always and n_out >= 1, key(cp, 'always-rebuilt'),
              'calc_penalties can return without rebuilding penalties and total_penalty: a mode without penalty table '
              'would be judged with the previous mode\'s penalty')
    ctx.check('R4.penalties', f'{site(cp)} total from the new table', dep and 'sum' in vkey(tot), key(cp, 'total'),
              'total_penalty is not the sum of the penalties just computed', vkey(tot)[:200])
    # every impairment of the table is looked up on the receiver itself
    comp = [n for n in walk_no_nested(cp.node) if isinstance(n, ast.DictComp)]
    ok = bool(comp) and 'getattr(self, ' in ast.unparse(comp[0].value)
    ctx.check('R4.penalties', f'{site(cp)} impairment read from the receiver', ok, key(cp, 'getattr'),
              'penalties are not interpolated at the receiver\'s own accumulated impairment values')
    ctx.need('R4.penalties', 4)


def r5_order(ctx):
    repo = ctx.repo
    f = repo.func(RQ, 'propagate_and_optimize_mode')
    sorts = [c for c in calls_to(f, {'sorted'})]
    by_target = {}
    for c in sorts:
        st = stmt_of(f, c)
        if isinstance(st, ast.Assign) and isinstance(st.targets[0], ast.Name):
            by_target[st.targets[0].id] = c
    loops = [n for n in walk_no_nested(f.node) if isinstance(n, ast.For)]
    outer = next((l for l in loops if isinstance(l.iter, ast.Name) and l.iter.id in by_target and
                  isinstance(l.target, ast.Tuple)), None)
    inner = next((l for l in loops if isinstance(l.iter, ast.Name) and l.iter.id in by_target and
                  isinstance(l.target, ast.Name)), None)
    if outer is None or inner is None:
        raise CannotAnalyse('exploration loops over sorted lists not found')
    co, ci = by_target[outer.iter.id], by_target[inner.iter.id]
    rev = lambda c: any(k.arg == 'reverse' and isinstance(k.value, ast.Constant) and k.value.value is True for k in c.keywords)
    ctx.check('R5.order', f'{site(f, co)} baud rates descending', rev(co) and kwarg(co, 'key') is None, key(f, 'baud-desc'),
              'candidate baud rates are not explored from the highest down')
    # the tuples sorted are (baud_rate, offset)
    # every definition of the explored list (the comprehension may stand alone, inside list(set(..)) or inside the sorted(..) call)
    src = [s for s in walk_no_nested(f.node) if isinstance(s, ast.Assign) and isinstance(s.targets[0], ast.Name) and
           s.targets[0].id == outer.iter.id]
    first = None
    for s in src:
        for n in ast.walk(s.value):
            if isinstance(n, (ast.ListComp, ast.GeneratorExp, ast.SetComp)) and isinstance(n.elt, ast.Tuple):
                first = ast.unparse(n.elt.elts[0])
    ctx.check('R5.order', f'{site(f)} baud rate is the primary key', first is not None and "'baud_rate'" in first,
              key(f, 'baud-primary'), 'the exploration tuples are not ordered by baud rate first', str(first))
    kf = kwarg(ci, 'key')
    ok = rev(ci) and isinstance(kf, ast.Lambda) and isinstance(kf.body, ast.Tuple) and \
        "'bit_rate'" in ast.unparse(kf.body.elts[0])
    ctx.check('R5.order', f'{site(f, ci)} bit rate descending', ok, key(f, 'bitrate-desc'),
              'modes of one baud rate are not explored from the highest bit rate down')
    # spacing filter on both lists
    sp = [n for n in walk_no_nested(f.node) if isinstance(n, (ast.ListComp, ast.SetComp, ast.GeneratorExp)) and
          any("'min_spacing'" in ast.unparse(i) and 'req.spacing' in ast.unparse(i) and
              any(isinstance(o, ast.LtE) for c in ast.walk(i) if isinstance(c, ast.Compare) for o in c.ops)
              for g_ in n.generators for i in g_.ifs)]
    ctx.check('R5.order', f'{site(f)} fits the spacing', len(sp) >= 2, key(f, 'spacing-filter'),
              'modes are not filtered by min_spacing <= requested spacing in both the baud-rate and the mode list')
    ctx.need('R5.order', 4)


def r6_tables(ctx):
    """penalty tables normalised at load: per impairment one table sorted by impairment value, boundaries and penalties
    taken from the same sorted rows, a (0, 0) lower boundary added only when every given boundary is positive"""
    repo = ctx.repo
    cls = repo.module('gnpy.tools.json_io').classes.get('Transceiver')
    if cls is None:
        raise AnchorMissing('json_io.Transceiver')
    f = cls.methods['__init__']
    s = site(f)
    loops = [n for n in walk_no_nested(f.node) if isinstance(n, ast.For) and isinstance(n.iter, (ast.Tuple, ast.List)) and
             {getattr(e, 'value', None) for e in n.iter.elts} == {'chromatic_dispersion', 'pmd', 'pdl'}]
    ctx.check('R6.tables', f'{s} impairments', len(loops) == 1, key(f, 'impairments'),
              'penalty tables are not built for exactly chromatic_dispersion, pmd and pdl')
    if len(loops) != 1:
        return
    lp = loops[0]
    imp = lp.target.id
    rows = [n for n in lp.body if isinstance(n, ast.Assign) and isinstance(n.value, ast.ListComp)]
    ok = len(rows) == 1 and ast.unparse(rows[0].value.generators[0].ifs[0]) == f'{imp} in {rows[0].value.generators[0].target.id}'
    ctx.check('R6.tables', f'{s} rows of the impairment', ok, key(f, 'rows'), 'the rows of one impairment are not those that carry its key')
    rv = rows[0].targets[0].id if rows else None
    sorts = [c for c in ast.walk(lp) if isinstance(c, ast.Call) and isinstance(c.func, ast.Attribute) and c.func.attr == 'sort'
             and ast.unparse(c.func.value) == rv]
    ok = len(sorts) == 1 and kwarg(sorts[0], 'key') is not None and f'[{imp}]' in ast.unparse(kwarg(sorts[0], 'key')) and \
        not any(k.arg == 'reverse' for k in sorts[0].keywords)
    ctx.check('R6.tables', f'{s} sorted by impairment value', ok, key(f, 'sorted'),
              'the rows are not sorted ascending by impairment value before interpolation (numpy.interp needs increasing abscissae)')
    tab = [n for n in ast.walk(lp) if isinstance(n, ast.Dict) and {getattr(k, 'value', None) for k in n.keys} == {'up_to_boundary', 'penalty_value'}]
    ok = False
    if len(tab) == 1 and sorts:
        d = {k.value: v for k, v in zip(tab[0].keys, tab[0].values)}
        ok = all(isinstance(v, ast.ListComp) and ast.unparse(v.generators[0].iter) == rv for v in d.values()) and \
            ast.unparse(d['up_to_boundary'].elt).endswith(f'[{imp}]') and ast.unparse(d['penalty_value'].elt).endswith("['penalty_value']")
        ok = ok and stmt_of(f, tab[0]).lineno > stmt_of(f, sorts[0]).lineno
    ctx.check('R6.tables', f'{s} boundaries and penalties from the same rows', ok, key(f, 'same-rows'),
              'up_to_boundary and penalty_value are not read, after sorting, from the same rows (boundary i would pair with another penalty)')
    ins = [c for c in ast.walk(lp) if isinstance(c, ast.Call) and isinstance(c.func, ast.Attribute) and c.func.attr == 'insert']
    ok = len(ins) == 1 and ast.unparse(ins[0].args[0]) == '0' and ast.unparse(ins[0].args[1]).replace(' ', '') == "{%s:0,'penalty_value':0}" % imp
    g = enclosing(ins[0], ast.If) if ins else None
    t = g.test if g is not None else None
    ok = ok and isinstance(t, ast.Call) and ast.unparse(t.func) == 'all' and len(t.args) == 1 and \
        isinstance(t.args[0], (ast.GeneratorExp, ast.ListComp)) and ast.unparse(t.args[0].generators[0].iter) == rv and \
        not t.args[0].generators[0].ifs and \
        ast.unparse(t.args[0].elt).replace(' ', '') == f'0<{t.args[0].generators[0].target.id}[{imp}]'
    ctx.check('R6.tables', f'{s} lower boundary', ok, key(f, 'lower-boundary'),
              'the (0 impairment, 0 penalty) row is not added exactly when every given boundary is positive')
    ctx.need('R6.tables', 5)



def rs_sorted(ctx):
    """Rs: every numpy.interp call behind this property interpolates over an abscissa that is ascending by construction or by a
    recorded precondition (numpy.interp does not check)"""
    from .common import interp_rule
    repo = ctx.repo
    interp_rule(ctx, 'Rs.sorted-abscissa', repo.cls('Transceiver', 'gnpy.core.elements').all_funcs(), 'a penalty would be interpolated on unsorted boundaries')
    ctx.need('Rs.sorted-abscissa', 1)


def r7_first_reason(ctx):
    """R7: the verdict of a request is its first blocking reason: later checks (reverse direction) do not overwrite it
    (shared with C19-R9)"""
    from .common import first_reason_rule
    first_reason_rule(ctx, 'R7.first-reason', 'a request blocked for lack of a feasible mode would be reported as failing another check')
    ctx.need('R7.first-reason', 2)


def r_mode_copy(ctx):
    """R8: a mode selected by the planner is copied onto the request completely and identically in every copy block (offset,
    penalties, baud rate, OSNR threshold, tx OSNR, bit rate, format)"""
    from .common import mode_copy_rule
    mode_copy_rule(ctx, 'R8.mode-copy', 'the verdict / the reverse direction would be computed with figures of another mode')
    ctx.need('R8.mode-copy', 2)


def rn_arg_roles(ctx):
    """Rn: a variable named like a parameter of the callee is handed to that parameter (no exchanged roles such as
    f(to_degree, from_degree) for def f(from_degree, to_degree)); calls to resolved package functions, canonical form"""
    from .common import arg_roles_rule
    from ..memo import scope_funcs
    n = arg_roles_rule(ctx, 'Rn.arg-roles', scope_funcs(ctx.repo, 'C13'), 'the verdict would be taken on exchanged quantities')
    ctx.check('Rn.arg-roles', 'argument / parameter name scan', True, 'C13|arg-roles-scan', '', f'{n} argument(s) named like another parameter judged')


def r_path_lookup(ctx):
    """R9: each internal ROADM path is registered with the impairment profile looked up for the same (from, to) pair"""
    from .common import roadm_path_lookup_rule
    roadm_path_lookup_rule(ctx, 'R9.path-lookup', 'the OSNR / penalties of the configured add, drop or express path would not be counted in the verdict')
    ctx.need('R9.path-lookup', 3)


from ..memo import rule_for as _memo_rule

RULES_MEMO = ('Rm.memo', _memo_rule('C13', 'a verdict would be taken on the figures of another propagation'))


from ..presence import rule_for as _presence_rule

RULES_PRESENCE = ('Rp.presence', _presence_rule('C13', 'a legal zero would be read as missing'))

RULES = [('R6.tables', r6_tables), ('R1.verdict', r1_verdicts), ('R2.update-snr', r2_update_snr), ('R3.once', r3_once),
         ('R4.penalties', r4_penalties), ('R5.order', r5_order), RULES_MEMO, RULES_PRESENCE, ('Rs.sorted-abscissa', rs_sorted), ('R7.first-reason', r7_first_reason), ('R8.mode-copy', r_mode_copy), ('Rn.arg-roles', rn_arg_roles), ('R9.path-lookup', r_path_lookup)]
