"""C04 - amplifier applies its set gain, the quantum-limited ASE, and never exceeds p_max.

 R1 ASE formula : Edfa.noise_profile = h * f * B * 10^(nf/10) over the spectrum's frequency / baud rate and self.nf.
 R2 order       : in Edfa.propagate: input VOA (when set) -> interpol_params -> add_ase(noise_profile) ->
                  apply_gain_db(gprofile - out_voa); ASE is therefore referred to the amplifier input.
 R3 clamp       : in interpol_params: effective_gain' = min(effective_gain, p_max - pin_db), pin_db = watt2dbm(TOTAL
                  input power), and the store precedes the NF and gain-profile computations that read it.
 R4 NF models   : _nf: pad = max(gain_min - g, 0), g' = g + pad, dg = max(gain_flatmax - g', 0), returns
                  (nf_avg + pad, pad); variable_gain: lin2db(10^(nf1/10) + 10^(nf2/10)/10^((g' - dp - dg)/10));
                  fixed_gain: nf0; advanced_model: polyval(nf_fit_coeff, -dg); OpenROADM forms.  Loader cross-check:
                  estimate_nf_model's acceptance tests use the same two-coil form at g1a_max = gain_max - dp and
                  g1a_min = gain_min - (gain_max - gain_min) - dp, and every return passes both tests.
 R5 exhaustive  : every type_def the library loader accepts (except multi_band) is handled by _nf / _calc_nf; the
                  fall-through raises.
 R6 band        : Edfa.__call__ propagates the spectrum demuxed to its own band and returns it.
 R8 dual stage  : _calc_nf: both stages evaluated with their own parameters at g1 = preamp flat-max gain and g2 = G - g1,
                  NF = lin2db(10^(nf1/10) + 10^((nf2 - g1)/10)) (Friis), per-channel NF = average + interpolated ripple.
 R7 gain profile: the last refinement step of _gain_profile is the secant step x + (G - g(x))/slope on both sides; the
                  flat-amplifier shortcut returns the effective gain.
 Rm memo          : every memoisation construct in the functions behind this property is keyed by everything it reads.
 Rp presence      : optional numeric fields are tested with `is None` / membership, never by truthiness (0 is a value).
 Rk field/key     : the parameter classes store every configuration entry under its own name (frozen rename table).
 Rs sorted        : every numpy.interp abscissa is ascending by construction or by a recorded precondition.
 Rn arg roles     : a variable named like a parameter of the callee is handed to that parameter (no exchanged roles).
 R9 dual stage params: p_max of the booster, flat-max gain = sum of the stages, stage parameters under their own prefix.
 R10 converted tables: convert / convert_back twins of the amplifier tables agree (keys, order key) - shared with C18.
"""
import ast
from fractions import Fraction

from ..model import AnchorMissing, CannotAnalyse, walk_no_nested
from ..cfg import CFG, fmt_path
from ..poly import Rat, C, mk_atom, lem_exp, lem_log, lem_min, lem_max, subst, restrict, gamma_conds, REG, fn
from ..vg import Evaluator, vkey, atoms_of, Const
from .common import calls_to, site, key, stmt_of, kwarg, attr_stores

EL = 'gnpy.core.elements'
EXPLANATION = (
    "Value graphs of Edfa.noise_profile, interpol_params, _nf, _calc_nf and estimate_nf_model are compared with the "
    "documented formulas (quantum-limited ASE h f B NF, the p_max clamp on TOTAL input power, the padding and NF "
    "model of each amplifier family, the two-coil acceptance tests of the loader); call ordering in propagate / "
    "interpol_params is checked on the flow graph; the type_def vocabulary of loader and model is cross-checked; the "
    "band demultiplexing in __call__ and the last secant step of the gain-profile refinement are checked. Not "
    "decided: the numeric result of the DGT/ripple iteration, OpenROADM polynomial values."
)
ASSUMPTIONS = ["numpy element-wise semantics, real arithmetic", "lin2db/db2lin lemmas (log10/exp10)"]
RULE_TEXT = ("sites: return of noise_profile; call order of propagate; clamp store; each arm of _nf; acceptance tests of "
             "estimate_nf_model; type_def literals; __call__; final step of _gain_profile")


def edfa(repo):
    return repo.cls('Edfa', EL)


def db2lin(x):
    return lem_exp(x / C(10), 'exp10')


def lin2db(x):
    return C(10) * lem_log(x, 'log10')


def r1_ase(ctx):
    repo = ctx.repo
    E, si = edfa(repo), repo.cls('SpectralInformation', 'gnpy.core.info')
    f = repo.method(E, 'noise_profile')
    sp = f.params[1]
    ev = Evaluator(repo, f, types={'self': E, sp: si}).run_function()
    got = ev.ret()
    want = Rat.sym('h') * Rat.of(mk_atom('fld', f'{sp}._baud_rate')) * Rat.of(mk_atom('fld', f'{sp}._frequency')) * \
        db2lin(Rat.of(mk_atom('fld', 'self.nf')))
    ctx.check('R1.ase', site(f), isinstance(got, Rat) and got.eq(want), key(f, 'formula'),
              'ASE is not h * frequency * baud_rate * 10^(nf/10) per channel', f'got {vkey(got)[:200]}')
    hsrc = f.module.imports.get('h')
    ctx.check('R1.ase', f'{site(f)} h is Planck', hsrc == ('obj', 'scipy.constants', 'h'), key(f, 'planck'),
              f'h is imported from {hsrc}, expected scipy.constants.h')
    ctx.need('R1.ase', 2)


def r2_order(ctx):
    repo = ctx.repo
    E, si = edfa(repo), repo.cls('SpectralInformation', 'gnpy.core.info')
    f = repo.method(E, 'propagate')
    sp = f.params[1]
    g = CFG(f.node)

    def node_calling(name):
        out = []
        for n in g.nodes:
            c = n.code()
            if c is None or n.kind not in ('stmt', 'test', 'return'):
                continue
            for x in [c] + list(walk_no_nested(c)):
                if isinstance(x, ast.Call) and isinstance(x.func, ast.Attribute) and x.func.attr == name:
                    out.append(n)
        return out
    gain = node_calling('apply_gain_db') + node_calling('apply_gain_lin')
    ase = node_calling('add_ase')
    ip = node_calling('interpol_params')
    if not gain or not ase or not ip:
        raise AnchorMissing('Edfa.propagate: apply_gain / add_ase / interpol_params call')
    s = site(f)
    for gn in gain:
        p = g.path_avoiding(g.entry, gn, lambda n: n.id in {a.id for a in ase}, skip_labels=('exc',))
        ctx.check('R2.order', f'{s} ASE before gain', p is None, key(f, 'ase-before-gain'),
                  'gain can be applied before the ASE is added: ASE would not be referred to the amplifier input',
                  fmt_path(f, p) if p else '')
    for an in ase:
        p = g.path_avoiding(g.entry, an, lambda n: n.id in {a.id for a in ip}, skip_labels=('exc',))
        ctx.check('R2.order', f'{s} operating point before ASE', p is None, key(f, 'interpol-before-ase'),
                  'ASE can be added before the operating point (NF, clamp) is computed', fmt_path(f, p) if p else '')
    # in_voa: applied (when not None) before interpol_params
    ev = Evaluator(repo, f, types={'self': E, sp: si}, no_inline={'interpol_params', 'noise_profile', 'add_ase', 'apply_gain_db',
                                                                  'apply_attenuation_db'}).run_function()
    voa = [c for c in ev.calls if c.name == 'apply_attenuation_db']
    ok = len(voa) == 1 and isinstance(voa[0].args[0], Rat) and voa[0].args[0].eq(Rat.of(mk_atom('fld', 'self.in_voa'))) and \
        voa[0].pc and voa[0].pc[-1] == ('isnone(self.in_voa)', False)
    ctx.check('R2.order', f'{s} input VOA', ok, key(f, 'in-voa'),
              'the input VOA is not applied as an attenuation of in_voa exactly when it is set',
              f'{[(vkey(c.args[0]), c.pc) for c in voa]}')
    if voa:
        vn = g.node_of(stmt_of(f, voa[0].node))
        order_ok = all(g.path_avoiding(vn, i, lambda n: False) is not None for i in ip) and \
            all(g.path_avoiding(i, vn, lambda n: False) is None for i in ip)
        ctx.check('R2.order', f'{s} input VOA first', order_ok, key(f, 'in-voa-first'),
                  'the input VOA is not applied before the operating point is computed')
    gc = [c for c in ev.calls if c.name == 'apply_gain_db']
    want = Rat.of(mk_atom('fld', 'self.gprofile')) - Rat.of(mk_atom('fld', 'self.out_voa'))
    # gprofile is havoced by interpol_params: accept the havoc atom of self.gprofile
    okg = False
    if len(gc) == 1 and isinstance(gc[0].args[0], Rat):
        v = gc[0].args[0]
        ats = [a for a in atoms_of(v).values()]
        hp = [a for a in v.atoms() if 'self.gprofile' in a]
        rest = v + Rat.of(mk_atom('fld', 'self.out_voa'))
        okg = len(hp) == 1 and rest.single_atom() is not None and 'self.gprofile' in rest.single_atom().key
    ctx.check('R2.order', f'{s} applied gain', okg, key(f, 'gain-arg'),
              'the gain applied is not gprofile - out_voa', vkey(gc[0].args[0])[:200] if gc else 'no apply_gain_db')
    aa = [c for c in ev.calls if c.name == 'add_ase']
    ok = len(aa) == 1 and isinstance(aa[0].args[0], Rat) and aa[0].args[0].single_atom() is not None and \
        'noise_profile' in aa[0].args[0].single_atom().name
    ctx.check('R2.order', f'{s} add_ase(noise_profile)', ok, key(f, 'ase-arg'), 'add_ase does not receive noise_profile(spectrum)')
    ctx.need('R2.order', 6)


def r3_clamp(ctx):
    repo = ctx.repo
    E, si = edfa(repo), repo.cls('SpectralInformation', 'gnpy.core.info')
    f = repo.method(E, 'interpol_params')
    sp = f.params[1]
    ev = Evaluator(repo, f, types={'self': E, sp: si}, no_inline={'_calc_nf', '_gain_profile', 'noise_profile',
                                                                  'arrange_frequencies'}).run_function()
    G0 = Rat.of(mk_atom('fld', 'self.effective_gain'))
    pmax = Rat.of(mk_atom('fld', 'self.params.p_max'))
    ptot = fn('sum', Rat.of(mk_atom('fld', f'{sp}._pch')))
    pin = lin2db(ptot * C(1000))
    # the value stored into effective_gain before the NF computation = value seen by the (opaque) _calc_nf call
    stores = attr_stores(f, 'effective_gain')
    if not stores:
        ctx.bad('R3.clamp', site(f), key(f, 'no-clamp'), 'interpol_params no longer clamps effective_gain against p_max')
        return
    from ..vg import State
    # evaluate the stored expression in the environment reached at that statement: re-run up to the store
    val = None
    for pc, _, st in ev.outcomes:
        pass
    # exit value may be havoced by later opaque calls on self; so read what the store statement computes:
    e2 = Evaluator(repo, f, types={'self': E, sp: si}, no_inline={'_calc_nf', '_gain_profile', 'noise_profile', 'arrange_frequencies'})
    st = State({p: Rat.sym(p) for p in f.params})
    for s_ in f.node.body:
        e2.stmt(s_, st)
        if s_ is stmt_of(f, stores[0][1]):
            break
    val = st.store.get('self.effective_gain')
    pin_v = st.store.get('self.pin_db')
    s = site(f, stores[0][0])
    ctx.check('R3.clamp', f'{s} value', isinstance(val, Rat) and val.eq(lem_min(G0, pmax - pin)), key(f, 'clamp-value'),
              'effective_gain is not clamped to min(set gain, p_max - total input power in dBm): total output can exceed '
              'p_max, or the gain is reduced more than needed', f'got {vkey(val)[:240]}')
    ctx.check('R3.clamp', f'{s} total input power', isinstance(pin_v, Rat) and pin_v.eq(pin), key(f, 'pin-total'),
              'pin_db is not watt2dbm(sum of channel powers)', f'got {vkey(pin_v)[:160]}')
    g = CFG(f.node)
    sn = g.node_of(stores[0][0])
    for name in ('_calc_nf', '_gain_profile'):
        for c in calls_to(f, {name}):
            cn = g.node_of(stmt_of(f, c))
            p = g.path_avoiding(g.entry, cn, lambda n: n.id == sn.id, skip_labels=('exc',))
            ctx.check('R3.clamp', f'{site(f, c)} clamp before {name}', p is None, key(f, f'clamp-before|{name}'),
                      f'{name} can run before the saturation clamp: NF / gain profile computed for a gain that is not applied',
                      fmt_path(f, p) if p else '')
    ctx.need('R3.clamp', 4)


def r4_nf(ctx):
    repo = ctx.repo
    E = edfa(repo)
    f = repo.method(E, '_nf')
    ev = Evaluator(repo, f, types={'self': E}).run_function()
    names = f.params[1:]
    td, model, fit, gmin, gfm, g = (Rat.sym(n) for n in names)
    pad = lem_max(gmin - g, C(0))
    g1 = g + pad
    dg = lem_max(gfm - g1, C(0))
    nm = names[1]
    attr = lambda a: Rat.of(mk_atom('fld', f'{nm}.{a}'))
    pin_ch = Rat.of(mk_atom('fld', 'self.pin_db')) - lin2db(Rat.of(mk_atom('fld', 'self.nch'))) + \
        lin2db(C(50000000000) / Rat.of(mk_atom('fld', 'self.slot_width')))
    spec = {
        'variable_gain': lin2db(db2lin(attr('nf1')) + db2lin(attr('nf2')) / db2lin(g1 - attr('delta_p') - dg)),
        'fixed_gain': attr('nf0'),
        'openroadm': pin_ch - fn('polyval', attr('nf_coef'), pin_ch) + C(58),
        'openroadm_preamp': pin_ch - lem_min((C(4) * pin_ch + C(275)) / C(7), C(33)) + C(58),
        'advanced_model': fn('polyval', fit, -dg),
    }
    seen = set()
    r = ev.ret()
    # every test on the type: equality with a literal, or membership in a literal tuple; the value for one type is the merged
    # value restricted by what each of these tests gives for that type (so `type in (a, b)` followed by an inner test reads the same)
    import re as _re
    conds = sorted(c for c in gamma_conds(r) if c.startswith(f'eq({names[0]},const:') or c.startswith(f'in({names[0]},['))
    universe = sorted({m for c in conds for m in _re.findall(r"const:'([^']*)'", c)})

    def holds(c, lit):
        vals = _re.findall(r"const:'([^']*)'", c)
        return lit in vals
    lits = {lit: lit for lit in universe if any(c.startswith('eq(') and holds(c, lit) for c in conds) or
            any(c.startswith('in(') and holds(c, lit) for c in conds)}
    for lit, ck in sorted(lits.items()):
        val = restrict(r, {c: holds(c, lit) for c in conds})
        if not isinstance(val, tuple) or len(val) != 2:
            continue
        seen.add(lit)
        st = f'{site(f)} [{lit}]'
        if lit in spec:
            ctx.check('R4.nf-model', st, isinstance(val[0], Rat) and val[0].eq(spec[lit] + pad), key(f, f'nf|{lit}'),
                      f'{lit}: NF is not the documented model plus the padding', f'got {vkey(val[0])[:260]}')
        elif lit == 'openroadm_booster':
            ctx.check('R4.nf-model', st, 'inf' in vkey(val[0]), key(f, f'nf|{lit}'), 'openroadm_booster is not noiseless')
        else:
            ctx.info(f'_nf handles type_def {lit!r} for which no specification is recorded')
        ctx.check('R4.nf-model', f'{st} padding', isinstance(val[1], Rat) and val[1].eq(pad), key(f, f'pad|{lit}'),
                  f'{lit}: the returned padding is not max(gain_min - gain_target, 0)', f'got {vkey(val[1])[:120]}')
    # the last arm of the chain has no gamma of its own (its else raises): it is the value when every test fails
    last = [pc[-1][0] for pc, node in ev.raises if pc and not pc[-1][1] and pc[-1][0].startswith(f'eq({names[0]},const:')]
    if last:
        lit = last[0][len(f'eq({names[0]},const:'):-1].strip("'")
        val = restrict(r, {c: False for c in conds})
        if isinstance(val, tuple) and len(val) == 2 and lit in spec:
            seen.add(lit)
            ctx.check('R4.nf-model', f'{site(f)} [{lit}]', isinstance(val[0], Rat) and val[0].eq(spec[lit] + pad), key(f, f'nf|{lit}'),
                      f'{lit}: NF is not the documented model plus the padding', f'got {vkey(val[0])[:260]}')
            ctx.check('R4.nf-model', f'{site(f)} [{lit}] padding', isinstance(val[1], Rat) and val[1].eq(pad), key(f, f'pad|{lit}'),
                      f'{lit}: the returned padding is not max(gain_min - gain_target, 0)')
    missing = sorted(set(spec) - seen)
    ctx.check('R4.nf-model', f'{site(f)} families', not missing, key(f, 'families'), f'_nf no longer handles {missing}')
    # loader cross-check
    est = repo.func('gnpy.core.science_utils', 'estimate_nf_model')
    ee = Evaluator(repo, est).run_function()
    tv, gmn, gmx, nfmin, nfmax = (Rat.sym(p) for p in est.params)
    rets = [(pc, v) for pc, v, _ in ee.outcomes if isinstance(v, tuple) and len(v) == 3]
    ctx.check('R4.loader', f'{site(est)} returns', len(rets) >= 1, key(est, 'returns'), 'estimate_nf_model returns nothing')
    tests = []
    for ck, (op, a, b) in ee.cond_info.items():
        pass
    # the two acceptance tests: isclose(nf_min, calc) / isclose(nf_max, calc) guard raises
    raised = [pc[-1] for pc, node in ee.raises if pc]
    closes = [ck for ck, v in raised if 'isclose' in ck]
    ctx.check('R4.loader', f'{site(est)} acceptance tests', len(closes) >= 2, key(est, 'two-tests'),
              'estimate_nf_model no longer rejects coil values that do not reproduce nf_min and nf_max',
              f'{[c[:60] for c in closes]}')
    import itertools
    closes_calls = [c for c in ee.calls if c.name == 'isclose' and len(c.args) >= 2]
    for pc, v in rets:
        nf1, nf2, dp = v
        if not all(isinstance(x, Rat) for x in (nf1, nf2, dp)):
            continue
        g1a_max = gmx - dp
        g1a_min = gmn - (gmx - gmn) - dp
        wants = {'nf_min': (nfmin, lin2db(db2lin(nf1) + db2lin(nf2) / db2lin(g1a_max))),
                 'nf_max': (nfmax, lin2db(db2lin(nf1) + db2lin(nf2) / db2lin(g1a_min)))}
        for label, (ref, want) in wants.items():
            cands = [c for c in closes_calls if isinstance(c.args[0], Rat) and c.args[0].eq(ref) and isinstance(c.args[1], Rat)]
            ok = False
            for c in cands:
                got = c.args[1]
                cs = sorted(gamma_conds(got) | gamma_conds(want))
                same = True
                for bits in itertools.product([True, False], repeat=min(len(cs), 6)):
                    assume = dict(zip(cs, bits))
                    g2, w2 = restrict(got, assume), restrict(want, assume)
                    # compare in the linear domain too: log10 of unreduced but equal arguments are distinct atoms
                    if not (g2.eq(w2) or db2lin(g2).eq(db2lin(w2))):
                        same = False
                        break
                # the test must guard the return: the return's path condition contains truth(isclose(..)) = True
                guarded = any('isclose' in ck and vkey(c.args[1])[:80] in ck and val for ck, val in pc)
                ok = ok or (same and guarded)
            ctx.check('R4.loader', f'{site(est)} {label} reproduced', ok, key(est, f'test|{label}'),
                      f'estimate_nf_model does not accept its coil values only when {label} ~ lin2db(10^(nf1/10) + 10^(nf2/10) / '
                      f'10^(g1a/10)) with g1a = {"gain_max - dp" if label == "nf_min" else "gain_min - (gain_max - gain_min) - dp"}: '
                      'the NF model would not return the datasheet value at that gain')
    ctx.need('R4.nf-model', 12)
    ctx.need('R4.loader', 3)


def r5_exhaustive(ctx):
    repo = ctx.repo
    E = edfa(repo)
    amp = repo.module('gnpy.tools.json_io').classes.get('Amp')
    if amp is None:
        raise AnchorMissing('json_io.Amp')
    fj = repo.method(amp, 'from_json')
    accepted = set()
    # the local(s) that hold the type_def of the entry being loaded: defined from the 'type_def' key
    td_locals = {n.targets[0].id for n in walk_no_nested(fj.node) if isinstance(n, ast.Assign) and isinstance(n.targets[0], ast.Name)
                 and any(isinstance(c, ast.Constant) and c.value == 'type_def' for c in ast.walk(n.value))}
    for n in walk_no_nested(fj.node):
        if isinstance(n, ast.Compare) and isinstance(n.left, ast.Name) and n.left.id in td_locals and \
                isinstance(n.ops[0], ast.Eq) and isinstance(n.comparators[0], ast.Constant):
            accepted.add(n.comparators[0].value)
    handled = set()
    for m in ('_nf', '_calc_nf'):
        f = repo.method(E, m)
        for n in walk_no_nested(f.node):
            if isinstance(n, ast.Compare) and isinstance(n.ops[0], ast.Eq) and isinstance(n.comparators[0], ast.Constant) \
                    and 'type_def' in ast.unparse(n.left):
                handled.add(n.comparators[0].value)
            # membership in a literal tuple handles each of its members
            if isinstance(n, ast.Compare) and isinstance(n.ops[0], ast.In) and isinstance(n.comparators[0], (ast.Tuple, ast.List, ast.Set)) \
                    and 'type_def' in ast.unparse(n.left):
                handled.update(e.value for e in n.comparators[0].elts if isinstance(e, ast.Constant))
    missing = sorted(accepted - handled - {'multi_band'})
    ctx.check('R5.exhaustive', f'{site(fj)} vs Edfa._nf/_calc_nf', not missing and len(accepted) >= 7, f'{E.qual}|unhandled|{",".join(missing)}',
              f'the loader accepts amplifier type_def {missing} that the NF model does not handle', f'accepted {sorted(accepted)}; handled {sorted(handled)}')
    nf = repo.method(E, '_nf')
    last = [n for n in walk_no_nested(nf.node) if isinstance(n, ast.Raise)]
    ctx.check('R5.exhaustive', f'{site(nf)} fall-through raises', bool(last), key(nf, 'fallthrough'),
              'an unknown type_def no longer raises in _nf')
    lr = [n for n in walk_no_nested(fj.node) if isinstance(n, ast.Raise)]
    ctx.check('R5.exhaustive', f'{site(fj)} unknown rejected', bool(lr), key(fj, 'fallthrough'),
              'the loader no longer rejects an unknown type_def')
    ctx.need('R5.exhaustive', 3)


def r6_band(ctx):
    repo = ctx.repo
    E = edfa(repo)
    f = repo.method(E, '__call__')
    sp = f.params[1]
    dm = calls_to(f, {'demuxed_spectral_information'})
    pr = calls_to(f, {'propagate'})
    rets = [n for n in walk_no_nested(f.node) if isinstance(n, ast.Return)]
    ok = len(dm) == 1 and len(pr) == 1
    band_ok = False
    if ok:
        b = dm[0].args[1] if len(dm[0].args) > 1 else kwarg(dm[0], 'band')
        from ..dataflow import derives
        band_ok = isinstance(dm[0].args[0], ast.Name) and dm[0].args[0].id == sp and \
            'self' in derives(f.node, b) and 'bands' in ' '.join(ast.unparse(v) for _, v in
                                                                   __import__('gscan.dataflow', fromlist=['local_defs']).local_defs(f.node).get(b.id if isinstance(b, ast.Name) else '', []) if isinstance(v, ast.AST)) or \
            (b is not None and 'self.params.bands' in ast.unparse(b))
        dst = stmt_of(f, dm[0])
        tgt = dst.targets[0].id if isinstance(dst, ast.Assign) and isinstance(dst.targets[0], ast.Name) else None
        pa = pr[0].args[0].id if pr[0].args and isinstance(pr[0].args[0], ast.Name) else None
        rv = rets[-1].value.id if rets and isinstance(rets[-1].value, ast.Name) else None
        g = CFG(f.node)
        dom = g.dominates(g.node_of(dst), g.node_of(stmt_of(f, pr[0])))
        ok = band_ok and tgt is not None and pa == tgt and rv == tgt and dom
    ctx.check('R6.band', site(f), bool(ok), key(f, 'demux'),
              'Edfa.__call__ does not propagate (and return) the spectrum demultiplexed to its own band: out-of-band '
              'channels would be amplified')
    none_guard = any(isinstance(n, ast.If) and 'None' in ast.unparse(n.test) and any(isinstance(x, ast.Raise) for x in n.body)
                     for n in walk_no_nested(f.node))
    ctx.check('R6.band', f'{site(f)} empty band rejected', none_guard, key(f, 'empty-band'),
              'an amplifier that receives no in-band channel no longer raises')
    ctx.need('R6.band', 2)


def r7_gain_profile(ctx):
    repo = ctx.repo
    E = edfa(repo)
    f = repo.method(E, '_gain_profile')
    ev = Evaluator(repo, f, types={'self': E}).run_function()
    G = Rat.of(mk_atom('fld', 'self.effective_gain'))
    dgt = Rat.of(mk_atom('fld', 'self.interpol_dgt'))
    # outcomes: [flat shortcut, not simple_opt -> None, small ripple -> g1st - voa, final]
    finals = [(pc, v) for pc, v, _ in ev.outcomes if isinstance(v, Rat)]
    if len(finals) < 2:
        raise CannotAnalyse(f'_gain_profile: {len(finals)} value returns')
    first = ev.outcomes[0][1]
    v0 = first[0] if isinstance(first, (list, tuple)) and len(first) == 1 else first
    ctx.check('R7.gain-profile', f'{site(f)} single-channel shortcut', isinstance(v0, Rat) and v0.eq(G), key(f, 'shortcut'),
              'with a single channel the gain profile is not the effective gain', vkey(v0)[:120])
    pcf, vf = finals[-1]
    conds = sorted(gamma_conds(vf))
    close = [c for c in conds if 'err_tolerance' in c]
    below = [c for c in conds if c.startswith('lt(self.effective_gain,')]
    if len(close) != 1 or len(below) != 1:
        raise CannotAnalyse(f'_gain_profile final step has an unforeseen shape: {conds}')
    base = restrict(vf, {close[0]: True})              # g1st - voa + dgt * xcent
    lo = restrict(vf, {close[0]: False, below[0]: True})
    hi = restrict(vf, {close[0]: False, below[0]: False})
    # gavg_cent appears in the comparison  effective_gain < gavg_cent
    gavg = None
    info = ev.cond_info.get(below[0])
    if info:
        gavg = info[2]
    if gavg is None:
        raise CannotAnalyse('cannot locate the centre gain estimate')

    def slope_times_step(v):
        d = v - base                    # = dgt * (dgts3 - xcent)
        q = d / dgt
        return q                        # dgts3 - xcent
    s_lo, s_hi = slope_times_step(lo), slope_times_step(hi)
    # secant step: (dgts3 - xcent) * slope = G - gavg_cent, i.e. step * (slope) - (G - gavg) = 0 for SOME slope that
    # does not depend on G: check that step / (G - gavg) is independent of the sign convention: same form on both sides
    r_lo, r_hi = s_lo / (G - gavg), s_hi / (G - gavg)
    dep_lo = 'self.effective_gain' in {a.name for a in atoms_of(r_lo).values() if a.kind == 'fld'} and False
    ok_lo = not (G - gavg).is_zero() and sign_of_ratio_is_inverse_slope(r_lo)
    ok_hi = sign_of_ratio_is_inverse_slope(r_hi)
    ctx.check('R7.gain-profile', f'{site(f)} refinement below centre', ok_lo, key(f, 'secant-low'),
              'the last refinement step (effective gain below the centre estimate) is not x + (G - g(x)) / slope: the '
              'applied gain profile is not normalised to the effective gain', f'step/(G - g) = {r_lo.key()[:200]}')
    ctx.check('R7.gain-profile', f'{site(f)} refinement above centre', ok_hi, key(f, 'secant-high'),
              'the last refinement step (effective gain above the centre estimate) is not x + (G - g(x)) / slope',
              f'step/(G - g) = {r_hi.key()[:200]}')
    # the flat-response shortcut (and the step of the lower / upper estimates) is decided on the spread of the FIRST-ESTIMATE gain
    # profile g1st = ripple + flat gain + DGT x scale, i.e. including the tilt contribution, not on the ripple alone
    small = [(k, info) for k, info in ev.cond_info.items() if info[0] == 'le' and isinstance(info[2], Rat) and info[2].eq(C(1) / C(20))]
    ok = False
    det = ''
    if len(small) == 1 and isinstance(small[0][1][1], Rat):
        spread = small[0][1][1]
        at = atoms_of(spread)
        mx = [a for a in at.values() if a.kind == 'fn' and a.name == 'max']
        mn = [a for a in at.values() if a.kind == 'fn' and a.name == 'min']
        if len(mx) == 1 and len(mn) == 1 and isinstance(mx[0].args[0], Rat) and isinstance(mn[0].args[0], Rat):
            x = mx[0].args[0]
            names = {a.name for a in atoms_of(x).values() if a.kind == 'fld'}
            det = vkey(x)[:160]
            ok = x.eq(mn[0].args[0]) and {'self.interpol_gain_ripple', 'self.interpol_dgt', 'self.params.gain_flatmax'} <= names
    ctx.check('R7.gain-profile', f'{site(f)} flat-response test', ok, key(f, 'flat-test'),
              'the "not enough ripple" shortcut is not decided on max - min of the first-estimate gain profile (ripple + flat gain + '
              'DGT x tilt scale): with a flat ripple but a tilted profile the refinement would be skipped and the applied gain drift '
              'away from the effective gain', det)
    ctx.need('R7.gain-profile', 4)


def sign_of_ratio_is_inverse_slope(r):
    """r must be 1/slope with slope = (g(a) - g(b)) / (a - b): a ratio of differences whose numerator and denominator are
    both antisymmetric differences taken in the same order.  Checked as: r = (xa - xb) / (ga - gb) where swapping the
    roles keeps r (i.e. r is a difference quotient, not its negative)."""
    if not isinstance(r, Rat) or r.is_zero():
        return False
    # r = N / D with N = xa - xb (two atoms/terms), D = ga - gb
    inv = r.inv()
    # a difference quotient of the gain estimates: numerator terms are 'pout_db - tot_in' style values (contain log10 / sum),
    # denominator is a difference of the x values. Positive orientation <=> the x with the larger coefficient pairs with
    # the g evaluated at that x.  We verify orientation by substitution: the quotient must be invariant under exchanging
    # the two sample points, and must equal +1 when g is the identity (g(x) = x).
    return difference_quotient_is_positive(inv)


def difference_quotient_is_positive(q):
    """q = (g(xa) - g(xb)) / (xa - xb) in the code's own atoms.  Replace every gain estimate 'watt2dbm(sum(pin*db2lin(
    base + dgt*x))) - tot_in' by x itself (g := identity) and check q == 1."""
    def ident(at):
        # gain estimate atoms are log10(sum(...)) of an expression containing dgt * x ; map log10(sum(E)) -> x*(1/10) so
        # that 10*log10(.) -> x : recover x as the coefficient structure is uniform: E = pin * exp10((base + dgt*x)/10)
        if at.kind == 'fn' and at.name == 'log10' and isinstance(at.args[0], Rat):
            inner = at.args[0].single_atom()
            if inner is not None and inner.name == 'sum' and isinstance(inner.args[0], Rat):
                x = extract_x(inner.args[0])
                if x is not None:
                    return x / C(10)
        return None
    try:
        q2 = subst(q, ident)
    except ZeroDivisionError:
        return False
    # tot_in_power and the +30 of watt2dbm cancel in a difference; what remains must be exactly 1
    return q2.eq(C(1))


def extract_x(e):
    """e = pin * exp10(1/10 * (B + dgt * x)) possibly split into a product of exp10 atoms; return x"""
    dgt_keys = [k for k in e.all_atoms() if k == 'self.interpol_dgt']
    total = C(0)
    found = False
    for k, c in e.n.t.items():
        for a, p in k:
            at = REG[a]
            if at.kind == 'fn' and at.name == 'exp10' and isinstance(at.args[0], Rat):
                arg = at.args[0] * C(p)
                # pick the part proportional to dgt
                for kk, cc in arg.n.t.items():
                    if any(x == 'self.interpol_dgt' for x, _ in kk):
                        rest = tuple((x, y) for x, y in kk if x != 'self.interpol_dgt')
                        from ..poly import Poly
                        total = total + Rat(Poly({rest: cc / arg.d.constval()})) * C(10)
                        found = True
        break
    return total if found else None


def fld(p):
    return Rat.of(mk_atom('fld', p))


def r8_dual_stage(ctx):
    """R8: a dual-stage amplifier is the cascade of its two stages (Friis): the first stage runs at its flat-max gain g1,
    the second at g2 = G - g1, each evaluated with its own NF model parameters, and
    NF = lin2db(10^(nf1/10) + 10^((nf2 - g1)/10)); single-stage types hand their own parameters and the effective gain to
    _nf; the per-channel NF is the average plus the interpolated ripple."""
    from ..vg import spec
    repo = ctx.repo
    E = edfa(repo)
    f = repo.method(E, '_calc_nf')
    ev = Evaluator(repo, f, types={'self': E}, no_inline={'_nf'}).run_function()
    r = ev.ret()
    s = site(f)
    conds = gamma_conds(r)
    dual = [c for c in conds if 'dual_stage' in c]
    avg = [c for c in conds if c.startswith('truth(')]
    if len(dual) != 1 or len(avg) != 1:
        raise CannotAnalyse(f'_calc_nf: unforeseen conditions {sorted(conds)}')
    P = lambda n: fld('self.params.' + n)     # noqa: E731
    G = fld('self.effective_gain')
    calls = [c for c in ev.calls if c.name == '_nf']
    want = {
        'preamp': ([P('preamp_type_def'), P('preamp_nf_model'), P('preamp_nf_fit_coeff'), P('preamp_gain_min'), P('preamp_gain_flatmax'),
                    P('preamp_gain_flatmax')], True),
        'booster': ([P('booster_type_def'), P('booster_nf_model'), P('booster_nf_fit_coeff'), P('booster_gain_min'), P('booster_gain_flatmax'),
                     G - P('preamp_gain_flatmax')], True),
        'single': ([P('type_def'), P('nf_model'), P('nf_fit_coeff'), P('gain_min'), P('gain_flatmax'), G], False),
    }
    found = {}
    for c in calls:
        a = list(c.args)
        for name, (w, when) in want.items():
            if len(a) == 6 and isinstance(a[0], Rat) and a[0].eq(w[0]):
                found[name] = c
                ok = all(isinstance(x, Rat) and x.eq(y) for x, y in zip(a, w)) and dict(c.pc).get(dual[0]) is when
                ctx.check('R8.dual-stage', f'{s} {name} stage parameters', ok, key(f, f'stage|{name}'),
                          f'the {name} stage is not evaluated with its own type, NF model, fit coefficients, gain range and gain '
                          f'({"g1 = preamp flat-max gain" if name == "preamp" else "g2 = G - g1" if name == "booster" else "the effective gain"})',
                          '; '.join(vkey(x)[:60] for x in a))
    for name in want:
        if name not in found:
            ctx.bad('R8.dual-stage', f'{s} {name} stage', key(f, f'stage|{name}'), f'no _nf evaluation for the {name} stage')
    if len(found) == 3:
        def res(c):
            return [at for at in atoms_of(r).values() if at.kind == 'fn' and at.name == 'item' and isinstance(at.args[0], Rat)
                    and at.args[0].single_atom() is not None and at.args[0].single_atom().name.startswith('call:') and
                    isinstance(at.args[0].single_atom().args[1], Rat) and at.args[0].single_atom().args[1].eq(c.args[0])
                    and isinstance(at.args[1], Rat) and at.args[1].eq(C(0))]
        n1, n2, n0 = res(found['preamp']), res(found['booster']), res(found['single'])
        if not (n1 and n2 and n0):
            raise CannotAnalyse('_calc_nf: results of the _nf calls not found in the returned value')
        b = {'nf1': Rat.of(n1[0]), 'nf2': Rat.of(n2[0]), 'g1': P('preamp_gain_flatmax'), 'ripple': fld('self.interpol_nf_ripple')}
        w_d = spec('10 * log10(10 ** (nf1 / 10) + 10 ** ((nf2 - g1) / 10))', b)
        got_avg = restrict(r, {dual[0]: True, avg[0]: True})
        got = restrict(r, {dual[0]: True, avg[0]: False})
        ctx.check('R8.dual-stage', f'{s} cascade formula', got_avg.eq(w_d), key(f, 'friis'),
                  'the dual-stage noise figure is not lin2db(db2lin(nf1) + db2lin(nf2 - g1)) (Friis): the second stage noise is not '
                  'referred to the input through the first stage gain', vkey(got_avg)[:300])
        ctx.check('R8.dual-stage', f'{s} ripple added (dual)', got.eq(w_d + b['ripple']), key(f, 'ripple|dual'),
                  'the per-channel NF of a dual-stage amplifier is not the cascade NF plus the interpolated ripple')
        g0 = restrict(r, {dual[0]: False, avg[0]: False})
        ctx.check('R8.dual-stage', f'{s} ripple added (single)', g0.eq(Rat.of(n0[0]) + b['ripple']), key(f, 'ripple|single'),
                  'the per-channel NF of a single-stage amplifier is not the model NF plus the interpolated ripple')
        ctx.check('R8.dual-stage', f'{s} average', restrict(r, {dual[0]: False, avg[0]: True}).eq(Rat.of(n0[0])), key(f, 'avg'),
                  'avg=True does not return the model NF without ripple')
    ctx.need('R8.dual-stage', 7)



def rk_field_key(ctx):
    """Rk: the parameter classes behind this property store every configuration entry under its own name (self.X = params['X']);
    the deliberate renames are a frozen table (gscan/fieldkey.py)"""
    from ..fieldkey import field_key_rule
    repo = ctx.repo
    n = field_key_rule(ctx, 'Rk.field-key', [repo.cls('EdfaParams', 'gnpy.core.parameters'), repo.cls('EdfaOperational', 'gnpy.core.parameters')], 'an amplifier stage would be evaluated with the limits of another stage or parameter')
    ctx.need('Rk.field-key', 20)


def rs_sorted(ctx):
    """Rs: every numpy.interp call behind this property interpolates over an abscissa that is ascending by construction or by a
    recorded precondition (numpy.interp does not check)"""
    from .common import interp_rule
    repo = ctx.repo
    interp_rule(ctx, 'Rs.sorted-abscissa', edfa(repo).all_funcs(), 'the amplifier ripple / DGT would be interpolated wrongly')
    ctx.need('Rs.sorted-abscissa', 3)


def rn_arg_roles(ctx):
    """Rn: a variable named like a parameter of the callee is handed to that parameter (no exchanged roles such as
    f(to_degree, from_degree) for def f(from_degree, to_degree)); calls to resolved package functions, canonical form"""
    from .common import arg_roles_rule
    from ..memo import scope_funcs
    n = arg_roles_rule(ctx, 'Rn.arg-roles', scope_funcs(ctx.repo, 'C04'), 'the amplifier model would be evaluated with exchanged quantities')
    ctx.check('Rn.arg-roles', 'argument / parameter name scan', True, 'C04|arg-roles-scan', '', f'{n} argument(s) named like another parameter judged')


def r9_dual_stage_params(ctx):
    """R9: the composite parameters of a dual-stage amplifier (loader _update_dual_stage): p_max of the booster, flat-max gain the
    sum of the stages, stage parameters under preamp_ / booster_"""
    from .common import dual_stage_rule
    dual_stage_rule(ctx, 'R9.dual-stage-params', 'the amplifier would saturate (clamp its gain) at the power limit of the wrong stage')
    ctx.need('R9.dual-stage-params', 6)



def r10_converted_tables(ctx):
    """R10: the amplifier tables a converted (YANG) library hands to the NF / gain model are the legacy tables: each convert_X /
    convert_back_X twin agrees on keys and entry order (nf_coef is re-ordered by its coef_order key) - rule shared with C18"""
    from .c18 import r2_siblings as _r
    from .common import proxy
    _r(proxy(ctx, 'R10'))


from ..memo import rule_for as _memo_rule

RULES_MEMO = ('Rm.memo', _memo_rule('C04', 'the gain, NF or ASE of another operating point would be applied'))


from ..presence import rule_for as _presence_rule

RULES_PRESENCE = ('Rp.presence', _presence_rule('C04', 'an amplifier setting of exactly 0 would be replaced by a default'))

RULES = [('R8.dual-stage', r8_dual_stage), ('R1.ase', r1_ase), ('R2.order', r2_order), ('R3.clamp', r3_clamp), ('R4.nf', r4_nf), ('R5.exhaustive', r5_exhaustive),
         ('R6.band', r6_band), ('R7.gain-profile', r7_gain_profile), RULES_MEMO, RULES_PRESENCE, ('Rk.field-key', rk_field_key), ('Rs.sorted-abscissa', rs_sorted), ('Rn.arg-roles', rn_arg_roles), ('R9.dual-stage-params', r9_dual_stage_params), ('R10.converted-tables', r10_converted_tables)]
