"""C11 - every computed route is a real, loop-free, constraint-respecting shortest path.

Decided (structural necessary conditions; networkx's search itself is trusted):
 R1 metric       : both searches use weight='weight', the key written at every add_edge, whose value is the length of
                   the source fibre else 0.01 (edge-weight rule shared with C08).
 R2 outcomes     : handler / outcome table of compute_constrained_path: NetworkXNoPath -> 'NO_PATH', []; no constrained
                   path (StopIteration) -> unconstrained shortest path iff no STRICT among the include hops, else
                   'NO_PATH_WITH_CONSTRAINT', []; the constrained result is the FIRST path of the length-ordered
                   generator that passes ispart(include list, path); source/destination are the request's transceivers.
 R3 reasons      : every literal assigned to blocking_reason in gnpy/ belongs to one of the three reason families.
 R4 route lists  : nodes_list / loose_list are edited in step (same position) wherever one is edited; an index obtained
                   by enumerating a snapshot is never used to delete from the live lists.
 R5 helpers      : ispart rejects a missing or out-of-order element; find_reversed_path starts at the last and ends at
                   the first element of the forward path and goes through the reverse OMS of every crossed OMS;
                   explicit_path returns only when first/last OMS touch the end ROADMs and consecutive OMS are adjacent.
"""
import ast

from ..model import AnchorMissing, CannotAnalyse, walk_no_nested
from ..cfg import CFG, fmt_path
from ..dataflow import names_in, local_defs
from .common import calls_to, site, key, stmt_of, enclosing, kwarg, all_attr_stores, module_list_literal, attr_stores

RQ = 'gnpy.topology.request'
EXPLANATION = (
    "Necessary structural conditions of routing decided from source: the search metric is the edge attribute that every "
    "add_edge sets to the fibre length of its source; the exception-handler / outcome table of the constrained search "
    "(no path, constraint not satisfiable with and without STRICT hops, first passing path of the ordered generator); "
    "the blocking-reason vocabulary; in-step editing of the parallel route lists; shape of the ordering, reversal and "
    "explicit-route helpers. Not decided: optimality and loop-freedom of networkx.shortest_simple_paths / dijkstra, "
    "that ispart/explicit_path are complete for every topology."
)
ASSUMPTIONS = ["networkx shortest_simple_paths yields simple paths in non-decreasing weight; dijkstra_path is optimal"]
RULE_TEXT = ("sites: 2 search calls, every add_edge in gnpy/, the 2 handlers of compute_constrained_path, every store to "
             "blocking_reason, every edit of nodes_list / loose_list, the 3 helpers")


def r1_metric(ctx):
    from .c08 import edge_weight_rule
    edge_weight_rule(ctx, 'R1.edge-weight')
    repo = ctx.repo
    f = repo.func(RQ, 'compute_constrained_path')
    n = 0
    for nm in ('shortest_simple_paths', 'dijkstra_path'):
        for c in calls_to(f, {nm}):
            n += 1
            w = kwarg(c, 'weight')
            ctx.check('R1.metric', site(f, c), isinstance(w, ast.Constant) and w.value == 'weight', key(f, f'weight|{nm}'),
                      f"{nm} does not rank paths by the edge attribute 'weight' (the fibre length)", ast.unparse(c)[:120])
            args = [ast.unparse(a) for a in c.args[:3]]
            ctx.check('R1.metric', f'{site(f, c)} endpoints', args == ['network', 'source', 'destination'], key(f, f'endpoints|{nm}'),
                      f'{nm} is not searched from the request source to its destination on the network', str(args))
    # source / destination resolution
    defs = local_defs(f.node)
    for nm, attr in (('source', 'req.source'), ('destination', 'req.destination')):
        d = defs.get(nm, [])
        ok = len(d) == 1 and f'el.uid == {attr}' in ast.unparse(d[0][1]) and 'trx' in ast.unparse(d[0][1])
        ctx.check('R1.metric', f'{site(f)} {nm}', ok, key(f, f'resolve|{nm}'),
                  f'the {nm} of the search is not the transceiver whose uid is {attr}')
    ctx.need('R1.metric', 6)


def r2_outcomes(ctx):
    repo = ctx.repo
    f = repo.func(RQ, 'compute_constrained_path')
    tries = [n for n in walk_no_nested(f.node) if isinstance(n, ast.Try)]
    if len(tries) != 1:
        raise CannotAnalyse('compute_constrained_path: expected one try around the searches')
    t = tries[0]
    hs = {ast.unparse(h.type): h for h in t.handlers}
    s = site(f)
    # constrained result = first element of generator passing ispart
    nx = [c for c in calls_to(f, {'next'}) if any(c is x for x in ast.walk(t))]
    ok = False
    if nx:
        g0 = nx[0].args[0]
        ok = isinstance(g0, ast.GeneratorExp) and len(g0.generators) == 1 and len(g0.generators[0].ifs) == 1 and \
            ast.unparse(g0.generators[0].ifs[0]).startswith('ispart(nodes_list, ') and ast.unparse(g0.elt) == g0.generators[0].target.id \
            and isinstance(g0.generators[0].iter, ast.Name)
        gen = stmt_of(f, calls_to(f, {'shortest_simple_paths'})[0])
        ok = ok and isinstance(gen, ast.Assign) and gen.targets[0].id == g0.generators[0].iter.id and len(nx[0].args) == 1
    ctx.check('R2.outcomes', f'{s} first passing path', bool(ok), key(f, 'first-passing'),
              'the constrained route is not the FIRST path of the length-ordered generator that contains the include nodes in order')
    h = hs.get('NetworkXNoPath')
    ok = h is not None and any(isinstance(x, ast.Assign) and ast.unparse(x) == "req.blocking_reason = 'NO_PATH'" for x in h.body) and \
        any(isinstance(x, ast.Assign) and ast.unparse(x) == 'total_path = []' for x in h.body)
    ctx.check('R2.outcomes', f'{s} no path', ok, key(f, 'no-path'), "no path in the topology does not give blocking reason 'NO_PATH' and an empty path")
    h = hs.get('StopIteration')
    ok = False
    if h is not None:
        ifs = [x for x in h.body if isinstance(x, ast.If)]
        if len(ifs) == 1:
            test = ast.unparse(ifs[0].test)
            loose_arm, strict_arm = (ifs[0].body, ifs[0].orelse) if test == "'STRICT' not in req.loose_list[:-1]" else \
                ((ifs[0].orelse, ifs[0].body) if test == "'STRICT' in req.loose_list[:-1]" else (None, None))
            if loose_arm is not None:
                dj = [c for x in loose_arm for c in ast.walk(x) if isinstance(c, ast.Call) and getattr(c.func, 'id', '') == 'dijkstra_path']
                a_ok = len(dj) == 1 and isinstance(getattr(dj[0], '_parent', None), ast.Assign) and \
                    ast.unparse(dj[0]._parent.targets[0]) == 'total_path' and \
                    not any('blocking_reason' in ast.unparse(x) for x in loose_arm)
                b_ok = any(ast.unparse(x) == "req.blocking_reason = 'NO_PATH_WITH_CONSTRAINT'" for x in strict_arm) and \
                    any(ast.unparse(x) == 'total_path = []' for x in strict_arm)
                ok = a_ok and b_ok
    ctx.check('R2.outcomes', f'{s} constraint not satisfiable', ok, key(f, 'loose-strict'),
              "when no path crosses the include nodes: with only LOOSE hops the unconstrained shortest path must be returned, with any "
              "STRICT hop the request must be blocked with 'NO_PATH_WITH_CONSTRAINT' and an empty path")
    rets = sorted([n for n in walk_no_nested(f.node) if isinstance(n, ast.Return)], key=lambda n: n.lineno)
    ok = bool(rets) and ast.unparse(rets[-1].value) == 'total_path'
    ctx.check('R2.outcomes', f'{s} result', ok, key(f, 'result'), 'the function does not return the path selected above')
    # the include list handed to ispart is built from the request's nodes (without the destination), in order
    lp = [n for n in walk_no_nested(f.node) if isinstance(n, ast.For) and 'req.nodes_list[:-1]' in ast.unparse(n.iter)]
    ok = bool(lp) and 'nodes_list.append(' in ast.unparse(lp[0]) and 'el.uid == node' in ast.unparse(lp[0])
    ctx.check('R2.outcomes', f'{s} include list', ok, key(f, 'include-list'),
              'the include list is not the request\'s nodes_list (destination excluded) resolved to network elements in order')
    ctx.need('R2.outcomes', 5)


def r3_reasons(ctx):
    repo = ctx.repo
    allowed = set()
    for nm in ('BLOCKING_NOPATH', 'BLOCKING_NOMODE', 'BLOCKING_NOSPECTRUM'):
        allowed |= set(module_list_literal(repo, RQ, nm))
    for f, s, t, v in all_attr_stores(repo, 'blocking_reason'):
        lit = v.value if isinstance(v, ast.Constant) else None
        ctx.check('R3.reasons', site(f, s), lit in allowed, f'{f.qual}|reason|{ast.unparse(v)}',
                  f'blocking reason {ast.unparse(v)} is not in BLOCKING_NOPATH / BLOCKING_NOMODE / BLOCKING_NOSPECTRUM: the '
                  'response builder and the CSV export would not classify it')
    ctx.need('R3.reasons', 9)


def r4_route_lists(ctx):
    repo = ctx.repo
    n_pairs = 0
    for f in repo.all_funcs():
        if f.module.name not in (RQ, 'gnpy.tools.service_sheet', 'gnpy.tools.json_io'):
            continue
        edits = []
        for c in [x for x in walk_no_nested(f.node) if isinstance(x, ast.Call) and isinstance(x.func, ast.Attribute)]:
            if c.func.attr in ('pop', 'remove', 'append', 'insert') and isinstance(c.func.value, ast.Attribute) and \
                    c.func.value.attr in ('nodes_list', 'loose_list'):
                edits.append(c)
        if not edits or 'loose_list' not in ast.unparse(f.node):
            continue        # service-sheet requests carry one LOOSE/STRICT flag for the whole list: nothing to keep in step
        by_stmt_block = {}
        for c in edits:
            st = stmt_of(f, c)
            par = getattr(st, '_parent', None)
            by_stmt_block.setdefault(id(par), []).append((st, c))
        for blk, items in by_stmt_block.items():
            nl = [c for st, c in items if c.func.value.attr == 'nodes_list']
            ll = [c for st, c in items if c.func.value.attr == 'loose_list']
            st0 = items[0][0]
            n_pairs += 1
            ok = len(nl) == len(ll) and len(nl) >= 1
            det = '; '.join(ast.unparse(c) for st, c in items)
            if ok:
                for a, b in zip(sorted(nl, key=lambda c: c.lineno), sorted(ll, key=lambda c: c.lineno)):
                    owner_a, owner_b = ast.unparse(a.func.value.value), ast.unparse(b.func.value.value)
                    same_owner = owner_a == owner_b
                    if a.func.attr == 'pop' and b.func.attr == 'pop':
                        pos_ok = ast.unparse(a.args[0]) == ast.unparse(b.args[0]) if a.args and b.args else (not a.args and not b.args)
                    elif a.func.attr == 'remove' and b.func.attr == 'pop':
                        want = f'{owner_a}.nodes_list.index({ast.unparse(a.args[0])})'
                        pos_ok = bool(b.args) and ast.unparse(b.args[0]) == want and b.lineno <= a.lineno
                    elif a.func.attr == 'append' and b.func.attr == 'append':
                        pos_ok = True
                    else:
                        pos_ok = False
                    ok = ok and same_owner and pos_ok
            ctx.check('R4.route-lists', site(f, st0), ok, f'{f.qual}|parallel|{det[:80]}',
                      'nodes_list and loose_list are not edited in step (same object, same position, index computed on the live '
                      'list before the removal): a hop would inherit the LOOSE/STRICT flag of another hop', det[:240])
    # snapshot-index rule
    f = repo.func(RQ, 'correct_json_route_list')
    for lp in [n for n in walk_no_nested(f.node) if isinstance(n, ast.For) and isinstance(n.iter, ast.Call) and
               getattr(n.iter.func, 'id', '') == 'enumerate' and isinstance(n.target, ast.Tuple)]:
        idx = lp.target.elts[0].id if isinstance(lp.target.elts[0], ast.Name) else None
        bad = [c for c in ast.walk(lp) if isinstance(c, ast.Call) and isinstance(c.func, ast.Attribute) and c.func.attr == 'pop'
               and c.args and isinstance(c.args[0], ast.Name) and c.args[0].id == idx] + \
              [d for d in ast.walk(lp) if isinstance(d, ast.Delete) and any(isinstance(t, ast.Subscript) and
                                                                               isinstance(t.slice, ast.Name) and t.slice.id == idx for t in d.targets)]
        ctx.check('R4.route-lists', f'{site(f, lp)} snapshot index', not bad, key(f, 'snapshot-index'),
                  f'the enumeration index {idx} of a snapshot is used to delete from a live list that shrinks during the loop',
                  '; '.join(ast.unparse(b) for b in bad))
        snap = ast.unparse(lp.iter.args[0])
        ctx.check('R4.route-lists', f'{site(f, lp)} iterates a copy', snap.startswith('temp.') or 'copy' in snap or 'list(' in snap,
                  key(f, 'iterate-copy'), 'the route list is edited while it is being iterated', snap)
    ctx.need('R4.route-lists', 5)


def r5_helpers(ctx):
    repo = ctx.repo
    f = repo.func(RQ, 'ispart')
    rets = [n for n in walk_no_nested(f.node) if isinstance(n, ast.Return)]
    falses = [r for r in rets if isinstance(r.value, ast.Constant) and r.value.value is False]
    trues = [r for r in rets if isinstance(r.value, ast.Constant) and r.value.value is True]
    a, b = f.params
    lp = [n for n in walk_no_nested(f.node) if isinstance(n, ast.For)]
    ok = len(lp) == 1 and ast.unparse(lp[0].iter) == a and len(falses) == 2 and len(trues) == 1 and \
        enclosing(trues[0], ast.For) is None
    if ok:
        v = lp[0].target.id
        tests = [ast.unparse(n.test) for n in walk_no_nested(lp[0]) if isinstance(n, ast.If)]
        ok = f'{v} in {b}' in tests and any(t.replace(' ', '') in (f'{b}.index({v})>=j', f'j<={b}.index({v})') for t in tests) and \
            any(isinstance(n, ast.Assign) and ast.unparse(n) == f'j = {b}.index({v})' for n in walk_no_nested(lp[0]))
    ctx.check('R5.helpers', site(f), bool(ok), key(f, 'ispart'),
              'ispart does not reject (False) a missing element or an element met before the previous one, and accept (True) only '
              'after all elements were checked')
    f = repo.func(RQ, 'find_reversed_path')
    txt = ast.unparse(f.node)
    ok = 'reversed_path = [pth[-1]]' in txt and 'reversed_path.append(pth[0])' in txt and 'el.oms.reversed_oms for el in pth' in txt \
        and 'reversed(' in txt and any(isinstance(n, ast.Raise) for n in walk_no_nested(f.node)) and 'reversed_path.extend(oms.el_list)' in txt
    g = CFG(f.node)
    ctx.check('R5.helpers', site(f), ok, key(f, 'reversed'),
              'the reverse path does not start at the last and end at the first element of the forward path, going through the reverse '
              'OMS of every crossed OMS in reverse order (and failing when one has no reverse)')
    f = repo.func(RQ, 'explicit_path')
    txt = ast.unparse(f.node)
    ok = 'path_oms[0].el_list[0] == source_roadm and path_oms[-1].el_list[-1] == destination_roadm' in txt and \
        'if not is_adjacent(oms0, oms):' in txt and 'path = [source] + oms0.el_list' in txt and 'path.append(destination)' in txt
    nones = [n for n in walk_no_nested(f.node) if isinstance(n, ast.Return) and isinstance(n.value, ast.Constant) and n.value.value is None]
    ctx.check('R5.helpers', site(f), ok and len(nones) >= 4, key(f, 'explicit'),
              'explicit_path accepts an include list whose OMS do not start at the source ROADM, end at the destination ROADM or '
              'are not pairwise adjacent')
    cc = repo.func(RQ, 'compute_constrained_path')
    ep = calls_to(cc, {'explicit_path'})
    ok = len(ep) == 1 and [ast.unparse(a) for a in ep[0].args] == ['nodes_list', 'source', 'destination', 'network']
    ctx.check('R5.helpers', f'{site(cc)} explicit route first', ok, key(cc, 'explicit-call'),
              'the explicit route shortcut is not computed from the resolved include list and the request endpoints')
    ctx.need('R5.helpers', 4)


RULES = [('R1.metric', r1_metric), ('R2.outcomes', r2_outcomes), ('R3.reasons', r3_reasons), ('R4.route-lists', r4_route_lists),
         ('R5.helpers', r5_helpers)]
