"""C11 - every computed route is a real, loop-free, constraint-respecting shortest path.

Decided (structural necessary conditions; networkx's search itself is trusted):
 R1 metric       : both searches use weight='weight', the key written at every add_edge, whose value is the length of
                   the source fibre else 0.01 (edge-weight rule shared with C08).
 R2 outcomes     : handler / outcome table of compute_constrained_path: NetworkXNoPath -> 'NO_PATH', []; no constrained
                   path (StopIteration) -> unconstrained shortest path iff no STRICT among the include hops, else
                   'NO_PATH_WITH_CONSTRAINT', []; the constrained result is the FIRST path of the length-ordered
                   generator that passes ispart(include list, path); source/destination are the request's transceivers.
 R3 reasons      : every literal assigned to blocking_reason in gnpy/ belongs to one of the three reason families.
 R4 route lists  : nodes_list / loose_list are edited in step (same position) wherever one is edited; an index obtained
                   by enumerating a snapshot is never used to delete from the live lists.
 R5 helpers      : ispart rejects a missing or out-of-order element; find_reversed_path starts at the last and ends at
                   the first element of the forward path and goes through the reverse OMS of every crossed OMS;
                   explicit_path returns only when first/last OMS touch the end ROADMs and consecutive OMS are adjacent.
 Rm memo          : every memoisation construct in the functions behind this property is keyed by everything it reads.
 Rp presence      : optional numeric fields are tested with `is None` / membership, never by truthiness (0 is a value).
 R6 group constraints: in a disjunction group the scan of a combination stops early only after a STRICT failure.
 R7 same request  : compare_reqs compares the same attribute of both requests (route lists and LOOSE/STRICT flags included).
 Ra alias mutation: a local that still names a list of another object (not copied) is never mutated in place.
 Rn arg roles     : a variable named like a parameter of the callee is handed to that parameter (no exchanged roles).
 R8 request keys  : requests_from_json reads every plainly copied field (source, destination, ...) from the key of the same name.
 R9 end trims     : source-first / destination-last entries are trimmed independently, node and flag together.
 R10 request defaults: mutable parameter defaults are copied per request (shared with C16).
 R11 route order    : route objects ordered by their numeric index.
"""
import ast

from ..model import AnchorMissing, CannotAnalyse, walk_no_nested
from ..cfg import CFG, fmt_path
from ..dataflow import names_in, local_defs
from .common import calls_to, site, key, stmt_of, enclosing, kwarg, all_attr_stores, module_list_literal, attr_stores, holds_at, resolved

RQ = 'gnpy.topology.request'
EXPLANATION = (
    "Necessary structural conditions of routing decided from source: the search metric is the edge attribute that every "
    "add_edge sets to the fibre length of its source; the exception-handler / outcome table of the constrained search "
    "(no path, constraint not satisfiable with and without STRICT hops, first passing path of the ordered generator); "
    "the blocking-reason vocabulary; in-step editing of the parallel route lists; shape of the ordering, reversal and "
    "explicit-route helpers. Not decided: optimality and loop-freedom of networkx.shortest_simple_paths / dijkstra, "
    "that ispart/explicit_path are complete for every topology."
)
ASSUMPTIONS = ["networkx shortest_simple_paths yields simple paths in non-decreasing weight; dijkstra_path is optimal"]
RULE_TEXT = ("sites: 2 search calls, every add_edge in gnpy/, the 2 handlers of compute_constrained_path, every store to "
             "blocking_reason, every edit of nodes_list / loose_list, the 3 helpers")


def r1_metric(ctx):
    from .c08 import edge_weight_rule
    edge_weight_rule(ctx, 'R1.edge-weight')
    repo = ctx.repo
    f = repo.func(RQ, 'compute_constrained_path')
    n = 0
    NET, REQ = f.params[0], f.params[1]
    ends = endpoints(f)
    for nm in ('shortest_simple_paths', 'dijkstra_path'):
        for c in calls_to(f, {nm}):
            n += 1
            w = kwarg(c, 'weight')
            ctx.check('R1.metric', site(f, c), isinstance(w, ast.Constant) and w.value == 'weight', key(f, f'weight|{nm}'),
                      f"{nm} does not rank paths by the edge attribute 'weight' (the fibre length)", ast.unparse(c)[:120])
            args = [ast.unparse(a) for a in c.args[:3]]
            ctx.check('R1.metric', f'{site(f, c)} endpoints', args == [NET, ends.get('source'), ends.get('destination')], key(f, f'endpoints|{nm}'),
                      f'{nm} is not searched from the request source to its destination on the network', str(args))
    for nm in ('source', 'destination'):
        ctx.check('R1.metric', f'{site(f)} {nm}', nm in ends, key(f, f'resolve|{nm}'),
                  f'the {nm} of the search is not the transceiver whose uid is req.{nm}')
    ctx.need('R1.metric', 6)


def endpoints(f):
    """locals holding the source / destination transceiver: next(e for e in <transceivers of the network> if e.uid == req.source)"""
    from ..pattern import find, bound_by
    NET, REQ = f.params[0], f.params[1]
    trx = {nm for nm, _, _ in bound_by(f.node, f'[V_n for V_n in {NET} if isinstance(V_n, Transceiver)]')} | \
        {nm for nm, _, _ in bound_by(f.node, f'[V_n for V_n in {NET}.nodes() if isinstance(V_n, Transceiver)]')}
    out = {}
    for role in ('source', 'destination'):
        for t in trx:
            for nm, _, _ in bound_by(f.node, f'next((V_e for V_e in {t} if V_e.uid == {REQ}.{role}))'):
                out[role] = nm
    return out


def include_list_var(f):
    """the local holding the resolved include list (canonical form: a comprehension over req.nodes_list[:-1])"""
    from ..pattern import bound_by
    NET, REQ = f.params[0], f.params[1]
    hits = bound_by(f.node, f'[next((V_e for V_e in {NET} if V_e.uid == V_node)) for V_node in {REQ}.nodes_list[:-1]]')
    return hits[0][0] if len(hits) == 1 else None


def r2_outcomes(ctx):
    from ..pattern import find, bound_by, mstmt, mexpr
    repo = ctx.repo
    f = repo.func(RQ, 'compute_constrained_path')
    NET, REQ = f.params[0], f.params[1]
    ends = endpoints(f)
    # the resolved include list: V = [] ; for n in req.nodes_list[:-1]: V.append(next(e for e in network if e.uid == n))
    incl = include_list_var(f)
    tries = [n for n in walk_no_nested(f.node) if isinstance(n, ast.Try)]
    if len(tries) != 1:
        raise CannotAnalyse('compute_constrained_path: expected one try around the searches')
    t = tries[0]
    hs = {ast.unparse(h.type): h for h in t.handlers}
    s = site(f)
    # constrained result = first element of generator passing ispart
    nx = [c for c in calls_to(f, {'next'}) if any(c is x for x in ast.walk(t))]
    ok = False
    result = None
    if nx:
        g0 = nx[0].args[0]
        b = mexpr(f'(V_p for V_p in E_gen if ispart({incl}, V_p))', g0) if incl else None
        ssp = calls_to(f, {'shortest_simple_paths'})[0]
        gen = stmt_of(f, ssp)
        # the generator: held in a local, or the call written as the iterable
        ok = b is not None and len(nx[0].args) == 1 and (
            b['E_gen'] is ssp or (isinstance(b['E_gen'], ast.Name) and isinstance(gen, ast.Assign) and gen.value is ssp and
                                  isinstance(gen.targets[0], ast.Name) and gen.targets[0].id == b['E_gen'].id))
        st_nx = stmt_of(f, nx[0])
        result = st_nx.targets[0].id if isinstance(st_nx, ast.Assign) and isinstance(st_nx.targets[0], ast.Name) else None
    ctx.check('R2.outcomes', f'{s} first passing path', bool(ok), key(f, 'first-passing'),
              'the constrained route is not the FIRST path of the length-ordered generator that contains the include nodes in order')
    h = hs.get('NetworkXNoPath')
    ok = h is not None and any(isinstance(x, ast.Assign) and ast.unparse(x) == f"{REQ}.blocking_reason = 'NO_PATH'" for x in h.body) and \
        any(isinstance(x, ast.Assign) and ast.unparse(x) == f'{result} = []' for x in h.body)
    ctx.check('R2.outcomes', f'{s} no path', ok, key(f, 'no-path'), "no path in the topology does not give blocking reason 'NO_PATH' and an empty path")
    h = hs.get('StopIteration')
    ok = False
    if h is not None:
        ifs = [x for x in h.body if isinstance(x, ast.If)]
        if len(ifs) == 1:
            test = ast.unparse(ifs[0].test)
            loose_arm, strict_arm = (ifs[0].body, ifs[0].orelse) if test == f"'STRICT' not in {REQ}.loose_list[:-1]" else \
                ((ifs[0].orelse, ifs[0].body) if test == f"'STRICT' in {REQ}.loose_list[:-1]" else (None, None))
            if loose_arm is not None:
                dj = [c for x in loose_arm for c in ast.walk(x) if isinstance(c, ast.Call) and getattr(c.func, 'id', '') == 'dijkstra_path']
                a_ok = len(dj) == 1 and isinstance(getattr(dj[0], '_parent', None), ast.Assign) and \
                    ast.unparse(dj[0]._parent.targets[0]) == result and \
                    not any('blocking_reason' in ast.unparse(x) for x in loose_arm)
                b_ok = any(ast.unparse(x) == f"{REQ}.blocking_reason = 'NO_PATH_WITH_CONSTRAINT'" for x in strict_arm) and \
                    any(ast.unparse(x) == f'{result} = []' for x in strict_arm)
                ok = a_ok and b_ok
    ctx.check('R2.outcomes', f'{s} constraint not satisfiable', ok, key(f, 'loose-strict'),
              "when no path crosses the include nodes: with only LOOSE hops the unconstrained shortest path must be returned, with any "
              "STRICT hop the request must be blocked with 'NO_PATH_WITH_CONSTRAINT' and an empty path")
    rets = sorted([n for n in walk_no_nested(f.node) if isinstance(n, ast.Return)], key=lambda n: n.lineno)
    ok = bool(rets) and result is not None and ast.unparse(rets[-1].value) == result
    ctx.check('R2.outcomes', f'{s} result', ok, key(f, 'result'), 'the function does not return the path selected above')
    # the include list handed to ispart is built from the request's nodes (without the destination), in order
    ctx.check('R2.outcomes', f'{s} include list', incl is not None, key(f, 'include-list'),
              'the include list is not the request\'s nodes_list (destination excluded) resolved to network elements in order')
    ctx.need('R2.outcomes', 5)


def r3_reasons(ctx):
    repo = ctx.repo
    allowed = set()
    for nm in ('BLOCKING_NOPATH', 'BLOCKING_NOMODE', 'BLOCKING_NOSPECTRUM'):
        allowed |= set(module_list_literal(repo, RQ, nm))
    for f, s, t, v in all_attr_stores(repo, 'blocking_reason'):
        lit = v.value if isinstance(v, ast.Constant) else None
        ctx.check('R3.reasons', site(f, s), lit in allowed, f'{f.qual}|reason|{ast.unparse(v)}',
                  f'blocking reason {ast.unparse(v)} is not in BLOCKING_NOPATH / BLOCKING_NOMODE / BLOCKING_NOSPECTRUM: the '
                  'response builder and the CSV export would not classify it')
    ctx.need('R3.reasons', 9)


def r4_route_lists(ctx):
    repo = ctx.repo
    n_pairs = 0
    for f in repo.all_funcs():
        if f.module.name not in (RQ, 'gnpy.tools.service_sheet', 'gnpy.tools.json_io'):
            continue
        edits = []
        for c in [x for x in walk_no_nested(f.node) if isinstance(x, ast.Call) and isinstance(x.func, ast.Attribute)]:
            if c.func.attr in ('pop', 'remove', 'append', 'insert') and isinstance(c.func.value, ast.Attribute) and \
                    c.func.value.attr in ('nodes_list', 'loose_list'):
                edits.append(c)
        if not edits or 'loose_list' not in ast.unparse(f.node):
            continue        # service-sheet requests carry one LOOSE/STRICT flag for the whole list: nothing to keep in step
        by_stmt_block = {}
        for c in edits:
            st = stmt_of(f, c)
            par = getattr(st, '_parent', None)
            by_stmt_block.setdefault(id(par), []).append((st, c))
        for blk, items in by_stmt_block.items():
            nl = [c for st, c in items if c.func.value.attr == 'nodes_list']
            ll = [c for st, c in items if c.func.value.attr == 'loose_list']
            st0 = items[0][0]
            n_pairs += 1
            ok = len(nl) == len(ll) and len(nl) >= 1
            det = '; '.join(ast.unparse(c) for st, c in items)
            if ok:
                for a, b in zip(sorted(nl, key=lambda c: c.lineno), sorted(ll, key=lambda c: c.lineno)):
                    owner_a, owner_b = ast.unparse(a.func.value.value), ast.unparse(b.func.value.value)
                    same_owner = owner_a == owner_b
                    if a.func.attr == 'pop' and b.func.attr == 'pop':
                        pos_ok = ast.unparse(a.args[0]) == ast.unparse(b.args[0]) if a.args and b.args else (not a.args and not b.args)
                    elif a.func.attr == 'remove' and b.func.attr == 'pop':
                        want = f'{owner_a}.nodes_list.index({ast.unparse(a.args[0])})'
                        pos_ok = bool(b.args) and ast.unparse(b.args[0]) == want and b.lineno <= a.lineno
                    elif a.func.attr == 'append' and b.func.attr == 'append':
                        pos_ok = True
                    else:
                        pos_ok = False
                    ok = ok and same_owner and pos_ok
            ctx.check('R4.route-lists', site(f, st0), ok, f'{f.qual}|parallel|{det[:80]}',
                      'nodes_list and loose_list are not edited in step (same object, same position, index computed on the live '
                      'list before the removal): a hop would inherit the LOOSE/STRICT flag of another hop', det[:240])
    # snapshot-index rule
    f = repo.func(RQ, 'correct_json_route_list')
    for lp in [n for n in walk_no_nested(f.node) if isinstance(n, ast.For) and isinstance(n.iter, ast.Call) and
               getattr(n.iter.func, 'id', '') == 'enumerate' and isinstance(n.target, ast.Tuple)]:
        idx = lp.target.elts[0].id if isinstance(lp.target.elts[0], ast.Name) else None
        bad = [c for c in ast.walk(lp) if isinstance(c, ast.Call) and isinstance(c.func, ast.Attribute) and c.func.attr == 'pop'
               and c.args and isinstance(c.args[0], ast.Name) and c.args[0].id == idx] + \
              [d for d in ast.walk(lp) if isinstance(d, ast.Delete) and any(isinstance(t, ast.Subscript) and
                                                                               isinstance(t.slice, ast.Name) and t.slice.id == idx for t in d.targets)]
        ctx.check('R4.route-lists', f'{site(f, lp)} snapshot index', not bad, key(f, 'snapshot-index'),
                  f'the enumeration index {idx} of a snapshot is used to delete from a live list that shrinks during the loop',
                  '; '.join(ast.unparse(b) for b in bad))
        snap = ast.unparse(lp.iter.args[0])
        root = snap.split('.')[0]
        is_copy = any(isinstance(n, ast.Assign) and ast.unparse(n.targets[0]) == root and isinstance(n.value, ast.Call) and
                      ast.unparse(n.value.func) in ('deepcopy', 'copy', 'copy.deepcopy', 'copy.copy') for n in walk_no_nested(f.node))
        ctx.check('R4.route-lists', f'{site(f, lp)} iterates a copy', is_copy or 'copy' in snap or 'list(' in snap,
                  key(f, 'iterate-copy'), 'the route list is edited while it is being iterated', snap)
    ctx.need('R4.route-lists', 5)


def r5_helpers(ctx):
    repo = ctx.repo
    f = repo.func(RQ, 'ispart')
    rets = [n for n in walk_no_nested(f.node) if isinstance(n, ast.Return)]
    falses = [r for r in rets if isinstance(r.value, ast.Constant) and r.value.value is False]
    trues = [r for r in rets if isinstance(r.value, ast.Constant) and r.value.value is True]
    a, b = f.params
    lp = [n for n in walk_no_nested(f.node) if isinstance(n, ast.For)]
    ok = len(lp) == 1 and ast.unparse(lp[0].iter) == a and len(falses) >= 1 and len(trues) == 1 and \
        enclosing(trues[0], ast.For) is None and all(enclosing(r, ast.For) is lp[0] for r in falses)
    if ok:
        # the position tracker advances only where the element is present and not before the previous one; everything else in
        # the loop returns False (guard clauses or nesting: read off the structure)
        v = lp[0].target.id
        ldefs = local_defs(f.node)
        adv = [n for n in walk_no_nested(lp[0]) if isinstance(n, ast.Assign) and isinstance(n.targets[0], ast.Name) and
               ast.unparse(resolved(ldefs, n.value)) == f'{b}.index({v})' and enclosing(n, ast.For) is lp[0] and
               ast.unparse(n.value) != n.targets[0].id]
        adv = [n for n in adv if any(isinstance(x, ast.Assign) and ast.unparse(x) == f'{n.targets[0].id} = 0' for x in f.node.body)]
        ok = len(adv) == 1
        if ok:
            j = adv[0].targets[0].id
            idx = {f'{b}.index({v})'} | ({ast.unparse(adv[0].value)} if isinstance(adv[0].value, ast.Name) else set())
            held = {c.replace(' ', '') for c in holds_at(adv[0])}
            order = {x.replace(' ', '') for i_ in idx for x in (f'{j} <= {i_}', f'not {i_} < {j}')}
            ok = f'{v} in {b}'.replace(' ', '') in held and bool(held & order)
            # every other way through the loop body ends in `return False`: the body is guards + the advance
            others = [n for n in lp[0].body if n is not adv[0] and not (isinstance(n, ast.If) and not n.orelse and len(n.body) == 1 and n.body[0] in falses)
                      and not (isinstance(n, ast.Assign) and isinstance(n.targets[0], ast.Name) and n.targets[0].id in
                               {ast.unparse(adv[0].value)})]
            nested = enclosing(adv[0], ast.If)
            ok = ok and (not others or (nested is not None and all(n is nested or isinstance(n, ast.Assign) for n in lp[0].body)))
    ctx.check('R5.helpers', site(f), bool(ok), key(f, 'ispart'),
              'ispart does not reject (False) a missing element or an element met before the previous one, and accept (True) only '
              'after all elements were checked')
    from ..pattern import find, mstmt, mexpr, bound_by
    f = repo.func(RQ, 'find_reversed_path')
    P = f.params[0]
    ok = False
    start = [b for n in f.node.body for b in [mstmt(f'V_r = [{P}[-1]]', n)] if b]
    if len(start) == 1:
        r = start[0]['V_r']
        ends_ = any(mstmt(f'{r}.append({P}[0])', n) is not None for n in f.node.body)
        lps = [n for n in f.node.body if isinstance(n, ast.For) and isinstance(n.iter, ast.Name) and isinstance(n.target, ast.Name)]
        ok = ends_ and len(lps) == 1
        if ok:
            o, src = lps[0].target.id, lps[0].iter.id
            ext = find(f'{r}.extend({o}.el_list)', lps[0])
            guard = [n for n in lps[0].body if isinstance(n, ast.If) and ast.unparse(n.test) in (f'{o} is not None', f'{o} is None')]
            sdef = [n for n in f.node.body if isinstance(n, ast.Assign) and ast.unparse(n.targets[0]) == src]
            ok = len(ext) == 1 and len(guard) == 1 and any(isinstance(n, ast.Raise) for n in ast.walk(guard[0])) and len(sdef) == 1 and \
                bool(find(f'[V_e.oms.reversed_oms for V_e in {P} if E_c]', sdef[0])) and bool(find('reversed(E_x)', sdef[0]))
            if ok:
                # the crossed OMS are taken from EVERY line element (all classes but Transceiver and Roadm)
                from ..typedomain import truth_table
                hit = find(f'[V_e.oms.reversed_oms for V_e in {P} if E_c]', sdef[0])[0][1]
                el = repo.module('gnpy.core.elements')
                dom = [el.classes[n] for n in ('Fiber', 'RamanFiber', 'Fused', 'Edfa', 'Multiband_amplifier', 'Roadm', 'Transceiver')]
                tt = truth_table(repo, f.module, hit['E_c'], [hit['V_e']], dom)
                ok = all(v == (k[0] not in ('Roadm', 'Transceiver')) for k, v in tt.items())
            rets = [n for n in walk_no_nested(f.node) if isinstance(n, ast.Return)]
            ok = ok and len(rets) == 1 and ast.unparse(rets[0].value) == r
    ctx.check('R5.helpers', site(f), ok, key(f, 'reversed'),
              'the reverse path does not start at the last and end at the first element of the forward path, going through the reverse '
              'OMS of every crossed OMS in reverse order (and failing when one has no reverse)')
    f = repo.func(RQ, 'explicit_path')
    NL, SRC, DST, NET = f.params[:4]
    ok = False
    collect = [{'V_po': nm} for nm, _, _ in bound_by(f.node, f"[V_e.oms for V_e in {NL} if hasattr(V_e, 'oms')]")] or \
        [{'V_po': nm} for nm, _, _ in bound_by(f.node, f"unique_ordered([V_e.oms for V_e in {NL} if hasattr(V_e, 'oms')])")]
    if len(collect) == 1:
        po = collect[0]['V_po']
        from ..pattern import bound_by_if
        srb = bound_by_if(f.node, 'isinstance(V_n, Roadm)', 'V_n', SRC)
        drb = bound_by_if(f.node, 'isinstance(V_n, Roadm)', 'V_n', DST)
        sr, dr = [x[0] for x in srb], [x[0] for x in drb]
        ok = len(sr) == 1 and len(dr) == 1
        if ok:
            sn, dn = srb[0][2]['V_n'], drb[0][2]['V_n']
            ok = bool(bound_by(f.node, f'next({NET}.successors({SRC}))')) and bound_by(f.node, f'next({NET}.successors({SRC}))')[0][0] == sn and \
                bool(bound_by(f.node, f'next({NET}.predecessors({DST}))')) and bound_by(f.node, f'next({NET}.predecessors({DST}))')[0][0] == dn
            edge = find(f'if {po}[0].el_list[0] != {sr[0]} or {po}[-1].el_list[-1] != {dr[0]}:\n    return None', f.node)
            ok = ok and len(edge) == 1
            first = [b for n in walk_no_nested(f.node) for b in [mstmt(f'V_o0 = {po}[0]', n)] if b]
            pairs = [b for n in walk_no_nested(f.node) if isinstance(n, ast.For) for b in [mstmt(
                f'for V_a, V_o in zip({po}, {po}[1:]):\n    if not is_adjacent(V_a, V_o):\n        return None\n    V_p.extend(V_o.el_list)', n)] if b]
            # third form: adjacency of all consecutive pairs tested in one all(..), the path then built over every OMS
            allpairs = [n for n in walk_no_nested(f.node) if isinstance(n, ast.Call) and getattr(n.func, 'id', '') == 'all' and n.args and
                        mexpr(f'(is_adjacent(V_a, V_o) for V_a, V_o in zip({po}, {po}[1:]))', n.args[0]) is not None]
            whole = [b for n in walk_no_nested(f.node) if isinstance(n, ast.For) for b in [mstmt(
                f'for V_o in {po}:\n    V_p.extend(V_o.el_list)', n)] if b]
            if len(allpairs) == 1 and len(whole) == 1 and not first and not pairs:
                lp_node = next(n for n in walk_no_nested(f.node) if isinstance(n, ast.For) and mstmt(
                    f'for V_o in {po}:\n    V_p.extend(V_o.el_list)', n) is not None)
                guarded = any(c.startswith('all(') and 'is_adjacent' in c for c in holds_at(lp_node))
                pinit = [b for n in walk_no_nested(f.node) for b in [mstmt(f'V_p = [{SRC}]', n)] if b]
                ok3 = guarded and len(pinit) == 1 and pinit[0]['V_p'] == whole[0]['V_p'] and \
                    any(mstmt(f"{whole[0]['V_p']}.append({DST})", n) is not None for n in walk_no_nested(f.node))
                rets3 = [n for n in walk_no_nested(f.node) if isinstance(n, ast.Return) and
                         not (isinstance(n.value, ast.Constant) and n.value.value is None) and n.value is not None]
                ok = ok and ok3 and len(rets3) == 1 and ast.unparse(rets3[0].value) in (f"unique_ordered({whole[0]['V_p']})", whole[0]['V_p'])
                pth = lp = None
                third = True
            else:
                third = False
            ok = ok and (third or len(first) == 1 or len(pairs) == 1)
            if ok and len(pairs) == 1 and not first:
                # the adjacency walk written over consecutive pairs
                pth = [b for n in walk_no_nested(f.node) for b in [mstmt(f'V_p = [{SRC}] + {po}[0].el_list', n)] if b]
                lp = pairs
            elif ok and not third:
                o0 = first[0]['V_o0']
                pth = [b for n in walk_no_nested(f.node) for b in [mstmt(f'V_p = [{SRC}] + {o0}.el_list', n)] if b]
                lp = [b for n in walk_no_nested(f.node) if isinstance(n, ast.For) for b in [mstmt(
                    f'for V_o in {po}[1:]:\n    if not is_adjacent({o0}, V_o):\n        return None\n    {o0} = V_o\n    V_p.extend(V_o.el_list)', n)] if b]
            if ok and not third:
                ok = len(pth) == 1 and len(lp) == 1 and lp[0]['V_p'] == pth[0]['V_p'] and \
                    any(mstmt(f"{pth[0]['V_p']}.append({DST})", n) is not None for n in walk_no_nested(f.node))
                rets = [n for n in walk_no_nested(f.node) if isinstance(n, ast.Return) and
                        not (isinstance(n.value, ast.Constant) and n.value.value is None) and n.value is not None]
                ok = ok and len(rets) == 1 and ast.unparse(rets[-1].value) in (f"unique_ordered({pth[0]['V_p']})", pth[0]['V_p']) if ok else False
    nones = [n for n in walk_no_nested(f.node) if isinstance(n, ast.Return) and isinstance(n.value, ast.Constant) and n.value.value is None]
    ctx.check('R5.helpers', site(f), bool(ok) and len(nones) >= 4, key(f, 'explicit'),
              'explicit_path accepts an include list whose OMS do not start at the source ROADM, end at the destination ROADM or '
              'are not pairwise adjacent')
    cc = repo.func(RQ, 'compute_constrained_path')
    ep = calls_to(cc, {'explicit_path'})
    ends = endpoints(cc)
    incl = [include_list_var(cc)]
    ok = len(ep) == 1 and incl[0] is not None and [ast.unparse(a) for a in ep[0].args] == [incl[0], ends.get('source'), ends.get('destination'), cc.params[0]]
    ctx.check('R5.helpers', f'{site(cc)} explicit route first', ok, key(cc, 'explicit-call'),
              'the explicit route shortcut is not computed from the resolved include list and the request endpoints')
    ctx.need('R5.helpers', 4)



def r6_group_constraints(ctx):
    """R6: inside a disjunction group the include constraints are judged per request: while checking the paths of a candidate
    combination the scan may only stop early after a STRICT request failed (the combination is then dropped); a failing
    LOOSE request must not hide a later STRICT one"""
    from ..pattern import find
    repo = ctx.repo
    f = repo.func(RQ, 'compute_path_dsjctn')
    # the scan: a loop over the paths of one combination that calls ispart(<request>.nodes_list, path)
    scans = []
    for lp in [n for n in walk_no_nested(f.node) if isinstance(n, ast.For) and isinstance(n.target, ast.Name)]:
        ip = [c for c in ast.walk(lp) if isinstance(c, ast.Call) and getattr(c.func, 'id', '') == 'ispart' and len(c.args) == 2 and
              isinstance(c.args[1], ast.Name) and c.args[1].id == lp.target.id and enclosing(c, ast.For) is lp]
        if ip:
            scans.append((lp, ip[0]))
    if len(scans) == 0:
        # the scan loop is there but no longer asks ispart: the include constraint is tested by something weaker (or not at all)
        loose = [n for n in walk_no_nested(f.node) if isinstance(n, ast.For) and 'nodes_list' in ast.unparse(n) and 'loose_list' in ast.unparse(n)]
        if loose:
            ctx.bad('R6.group-constraints', site(f, loose[0]), key(f, 'no-ispart'),
                    'the paths of a synchronised group are not tested with ispart(<include list>, path): the ORDER of the include nodes '
                    '(and their presence) is not what decides - an unsatisfiable STRICT list would be accepted',
                    ast.unparse(loose[0])[:200])
            return
    if len(scans) != 1:
        raise CannotAnalyse(f'compute_path_dsjctn: {len(scans)} scans of a combination with ispart')
    lp, ip = scans[0]
    s = site(f, lp)
    strict_ifs = [n for n in ast.walk(lp) if isinstance(n, ast.If) and isinstance(n.test, ast.Compare) and isinstance(n.test.ops[0], ast.In) and
                  isinstance(n.test.left, ast.Constant) and n.test.left.value == 'STRICT' and ast.unparse(n.test.comparators[0]).endswith('.loose_list')]
    ok = len(strict_ifs) == 1
    ctx.check('R6.group-constraints', f'{s} STRICT test', ok, key(f, 'strict-test'),
              'the scan of a combination does not test whether the failing request has a STRICT hop')
    if ok:
        si = strict_ifs[0]
        fails = [n for n in si.body if isinstance(n, ast.Assign) and isinstance(n.targets[0], ast.Name) and isinstance(n.value, ast.Constant)
                 and n.value.value is False]
        brs = [n for n in ast.walk(lp) if isinstance(n, (ast.Break, ast.Return))]
        inside = all(any(b is x for st in si.body for x in ast.walk(st)) for b in brs)
        ctx.check('R6.group-constraints', f'{s} early exit only after a STRICT failure', bool(fails) and inside, key(f, 'strict-break'),
                  'the scan of a combination stops at the first failing request even when it is LOOSE: a STRICT request later in the '
                  'group is never examined and a route ignoring its STRICT hop is kept')
        # the strict flag decides whether the combination survives as an alternate
        flag = fails[0].targets[0].id if fails else None
        uses = [n for n in walk_no_nested(f.node) if isinstance(n, ast.If) and flag and ast.unparse(n.test) == flag and n.lineno > lp.end_lineno]
        ctx.check('R6.group-constraints', f'{s} STRICT failure drops the combination', bool(uses), key(f, 'strict-drops'),
                  'a combination in which a STRICT request failed is still kept as an alternate')
    ctx.need('R6.group-constraints', 3)


def r7_same_request(ctx):
    """R7: requests that differ in their route constraints (nodes, LOOSE / STRICT flags) are never merged: compare_reqs compares
    the same attribute on both sides (shared with C19-R8)"""
    from .common import compare_pairs_rule
    compare_pairs_rule(ctx, 'R7.same-request', 'a STRICT request would be merged with its LOOSE twin and routed (or blocked) as the other one')
    ctx.need('R7.same-request', 15)


def ra_alias(ctx):
    """Ra: a local that still names a list / dict of another object (bound from an attribute or an item, not copied on that path:
    freshness lattice) is never mutated in place"""
    from .common import alias_mutation_rule
    from ..memo import scope_funcs
    alias_mutation_rule(ctx, 'Ra.alias-mutation', scope_funcs(ctx.repo, 'C11'), 'the OMS element lists shared by all routes would grow with every explicit route')
    ctx.need('Ra.alias-mutation', 3)


def rn_arg_roles(ctx):
    """Rn: a variable named like a parameter of the callee is handed to that parameter (no exchanged roles such as
    f(to_degree, from_degree) for def f(from_degree, to_degree)); calls to resolved package functions, canonical form"""
    from .common import arg_roles_rule
    from ..memo import scope_funcs
    n = arg_roles_rule(ctx, 'Rn.arg-roles', scope_funcs(ctx.repo, 'C11'), 'source and destination / route roles would be exchanged')
    ctx.check('Rn.arg-roles', 'argument / parameter name scan', True, 'C11|arg-roles-scan', '', f'{n} argument(s) named like another parameter judged')


def r8_endpoints_loaded(ctx):
    """R8: the request that is routed is the request that was asked: requests_from_json fills source, destination (and every other
    plainly copied field) from the JSON key of the same name"""
    from .common import request_keys_rule
    request_keys_rule(ctx, 'R8.request-keys', 'the route would be computed to / from another transceiver than the one requested')
    ctx.need('R8.request-keys', 4)


def r9_end_trims(ctx):
    """R9: a route list naming its own source first / destination last is trimmed at both ends independently, node and hop flag
    together (JSON requests)"""
    from .common import end_trims_rule
    end_trims_rule(ctx, 'R9.end-trims', [ctx.repo.func(RQ, 'correct_json_route_list')],
                   'the hop flags would be shifted against the hops, or an end transceiver kept as a constraint')
    ctx.need('R9.end-trims', 1)



def r10_request_defaults(ctx):
    """R10: a request built without an include list has its OWN empty list: parameter defaults that are mutable are copied per
    instance (the routing code appends the destination to nodes_list / loose_list in place) - rule shared with C16"""
    from .c16 import r7_defaults as _r
    from .common import proxy
    _r(proxy(ctx, 'R10'))



def r11_route_order(ctx):
    """R11: the include constraints reach the router in the order the request gives them: the route objects of a request are ordered
    by their NUMERIC index (sorted on the index itself - not on its text, where 10 comes before 2) and the node / strictness lists
    are built from that one ordered list"""
    from ..pattern import mexpr
    repo = ctx.repo
    f = repo.func('gnpy.tools.json_io', 'requests_from_json')
    srt = [c for c in calls_to(f, {'sorted'}) if 'route-object-include-exclude' in ast.unparse(c)]
    ok = len(srt) == 1
    det = ''
    if ok:
        k = kwarg(srt[0], 'key')
        det = ast.unparse(k) if k is not None else 'no key'
        ok = isinstance(k, ast.Lambda) and len(k.args.args) == 1 and \
            mexpr(f"{k.args.args[0].arg}['index']", k.body) is not None and kwarg(srt[0], 'reverse') is None
    ctx.check('R11.route-order', site(f), ok, key(f, 'index-order'),
              'the route objects of a request are not put in the order of their numeric index: with ten or more include nodes the '
              'constraint list would be shuffled (index 10 before index 2) and a satisfiable ordered route be refused or dropped', det)
    ctx.need('R11.route-order', 1)


from ..memo import rule_for as _memo_rule

RULES_MEMO = ('Rm.memo', _memo_rule('C11', 'a route computed for another request or topology would be returned'))


from ..presence import rule_for as _presence_rule

RULES_PRESENCE = ('Rp.presence', _presence_rule('C11', 'a legal zero would be read as missing'))

RULES = [('R1.metric', r1_metric), ('R2.outcomes', r2_outcomes), ('R3.reasons', r3_reasons), ('R4.route-lists', r4_route_lists),
         ('R5.helpers', r5_helpers), RULES_MEMO, RULES_PRESENCE, ('R6.group-constraints', r6_group_constraints), ('R7.same-request', r7_same_request), ('Ra.alias-mutation', ra_alias), ('Rn.arg-roles', rn_arg_roles), ('R8.request-keys', r8_endpoints_loaded), ('R9.end-trims', r9_end_trims), ('R10.defaults', r10_request_defaults), ('R11.route-order', r11_route_order)]
