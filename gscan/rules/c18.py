"""C18 - input documents mean the same thing in legacy and YANG form.

 R1 pairing   : every converter applied on the legacy->YANG side has its inverse on the YANG->legacy side of the
                same document kind (both arms), incl. the global float<->string and null<->[null] passes.
 R2 accumulate: in the converters a list initialised before a loop and read after it is grown inside the loop, never re-assigned.
 R2 siblings  : each convert_X / convert_back_X twin agrees on the key vocabulary and on the entries it quantifies
                over (a twin that loops over all entries must not be answered by one that touches entry [0] only);
                every key a convert_back_X writes into an entry is a key the loader of that entry consumes.
 R3 precision : PRECISION_DICT[name] = max fraction-digits of the same-named leaves of gnpy/yang/gnpy-*.yang,
                0 for (u)int8..32, -1 otherwise; leaves absent from the table must have the table's default (2).
 R4 loaders   : every user document read on the load path goes through load_gnpy_json.
 R5 aliases   : in both other_name loops the dict given to the constructor has type_variety set from the loop
                variable and the alias list removed, on a per-alias copy.
 R6 no value filter: comprehension filters in the converters are key tests, never the truthiness of the converted item.
 R7 range round trip: list <-> keyed form of a range keeps every position (Span and SI sites).
 R8 loader reads  : the legacy loader reads from raman_efficiency only the keys the conversion carries.
 R9 alias/dump    : alias copies of a mode are taken after all defaults are set; documents are printed with all siblings.
"""
import ast

from ..model import AnchorMissing, CannotAnalyse, walk_no_nested, Func, Cls
from ..yang import YangModels
from ..dataflow import local_defs, derives, names_in
from .common import calls_to, kwarg, stmt_of, enclosing, site, key, root_name, resolved

CONV = 'gnpy.tools.convert_legacy_yang'
UTIL = 'gnpy.tools.yang_convert_utils'
EXPLANATION = (
    "Table/sibling agreement decided from source: converter sets per document kind extracted from the decision "
    "lists of legacy_to_yang / yang_to_legacy and paired with their inverses; each convert/convert_back twin "
    "compared on key vocabulary (module constants resolved) and on the domain of entries it touches; keys written "
    "back into entries checked against the literals the entry's loader class consumes; PRECISION_DICT compared "
    "with a parse of all leaves of gnpy/yang/gnpy-*.yang (typedef/union resolved); all JSON reads on the load path "
    "enumerated; def-use on the two alias loops. Not decided: value-level round-trip equality."
)
ASSUMPTIONS = ["a key is 'consumed' by a loader when it appears as a string literal in the loader class (its "
               "default_values, its __init__ or its base classes) or in gnpy/core/parameters.py for topology params",
               "YANG statements are parsed structurally (keyword, argument, block); deviations/augments across "
               "modules are not resolved (none are used by gnpy-*.yang)"]
RULE_TEXT = ("sites: each (document kind, converter) pair; each converter twin; each written-back key; each of the "
             "YANG leaf names; each JSON read in json_io/cli_examples/worker_utils; each alias loop")

KINDS = {   # document kind -> names that identify its arms in the decision lists
    'topology': {'ELEMENTS_KEY', 'TOPO_NMSP'},
    'equipment': {'EQPT_TYPES', 'EQPT_NMSP'},
    'edfa-config': {'EDFA_CONFIG_KEYS', 'EDFA_CONFIG_NMSP'},
}


def arms(func):
    """[(test names, [converter call names in the arm])] for the top-level if/elif chain(s) of func"""
    out = []

    def chain(node):
        cur = node
        while isinstance(cur, ast.If):
            names = names_in(cur.test)
            calls = []
            for s in cur.body:
                for n in [s] + list(walk_no_nested(s)):
                    if isinstance(n, ast.Call) and isinstance(n.func, ast.Name):
                        calls.append(n.func.id)
            out.append((names, calls, cur))
            if len(cur.orelse) == 1 and isinstance(cur.orelse[0], ast.If):
                cur = cur.orelse[0]
            else:
                break
    for s in func.node.body:
        if isinstance(s, ast.If):
            chain(s)
    return out


def r1_pairing(ctx):
    repo = ctx.repo
    fwd, back = repo.func(CONV, 'legacy_to_yang'), repo.func(CONV, 'yang_to_legacy')
    util = repo.module(UTIL)
    pairs = sorted(n[len('convert_'):] for n in util.functions if n.startswith('convert_') and
                   not n.startswith('convert_back_') and f'convert_back_{n[len("convert_"):]}' in util.functions)
    if len(pairs) < 8:
        raise AnchorMissing(f'converter twins in yang_convert_utils: only {pairs}')
    fa, ba = arms(fwd), arms(back)
    for kind, ids in KINDS.items():
        f_arms = [(n, c, node) for n, c, node in fa if n & ids]
        b_arms = [(n, c, node) for n, c, node in ba if n & ids]
        if len(f_arms) < 2 or len(b_arms) < 2:
            raise AnchorMissing(f'{kind} arms of legacy_to_yang / yang_to_legacy')
        # the legacy-form arm of legacy_to_yang is the one that does the conversion work
        legacy_arm = max(f_arms, key=lambda a: len([c for c in a[1] if c.startswith('convert_')]))
        applied = {c[len('convert_'):] for c in legacy_arm[1] if c.startswith('convert_') and
                   not c.startswith('convert_back_') and c[len('convert_'):] in pairs}
        for names, calls, node in b_arms:
            inv = {c[len('convert_back_'):] for c in calls if c.startswith('convert_back_')}
            for p in sorted(applied | inv):
                st = f'{back.loc(node)} {back.qual} [{kind}: {sorted(names & ids)[0]}] {p}'
                ctx.check('R1.pairing', st, p in applied and p in inv, key(back, f'{kind}|{sorted(names & ids)[0]}|{p}'),
                          f'{kind}: convert_{p} is applied on the legacy->YANG side but convert_back_{p} is not applied '
                          f'in this YANG->legacy arm (or the reverse)',
                          f'forward {sorted(applied)} ; this arm {sorted(inv)}')
    # global passes
    fcalls = [c.func.id for c in walk_no_nested(fwd.node) if isinstance(c, ast.Call) and isinstance(c.func, ast.Name)]
    bcalls = [c.func.id for c in walk_no_nested(back.node) if isinstance(c, ast.Call) and isinstance(c.func, ast.Name)]
    for f_, b_ in (('convert_dict', 'convert_back'), ('convert_none_to_empty', 'convert_empty_to_none')):
        ctx.check('R1.pairing', f'{site(fwd)} / {site(back)} {f_}', f_ in fcalls and b_ in bcalls, f'global|{f_}',
                  f'the global pass {f_} / {b_} is not applied on both sides')
    ctx.need('R1.pairing', 18)


# ------------------------------------------------------------------------------------------------ R2
def resolved_literals(repo, func, depth=2, msgs=None):
    """string literals used as keys in func (module constants resolved), following same-module helpers;
    literals inside raise statements (messages) are collected separately"""
    out = set()
    mod = func.module
    msgs = msgs if msgs is not None else set()
    for n in ast.walk(func.node):
        if isinstance(n, ast.Raise):
            msgs |= {x.value for x in ast.walk(n) if isinstance(x, ast.Constant) and isinstance(x.value, str)}
    doc = ast.get_docstring(func.node)
    for n in ast.walk(func.node):
        if isinstance(n, ast.Constant) and isinstance(n.value, str) and n.value != doc and n.value.strip() != (doc or '').strip():
            out.add(n.value)
        elif isinstance(n, ast.Name) and n.id.isupper():
            r = repo.resolve_name(mod, n.id)
            if isinstance(r, tuple) and r[0] == 'const' and isinstance(r[1], ast.Constant) and isinstance(r[1].value, str):
                out.add(r[1].value)
        elif isinstance(n, ast.Call) and isinstance(n.func, ast.Name) and depth > 0:
            r = repo.resolve_name(mod, n.func.id)
            if isinstance(r, Func) and r.module is mod and r is not func:
                out |= resolved_literals(repo, r, depth - 1, msgs)
    import re
    return {x for x in out if x not in msgs and re.fullmatch(r'[A-Za-z_][A-Za-z0-9_\-:]*', x)}


# documented asymmetries of a twin (one line of reason each)
VOCAB_EXCEPTIONS = {
    'raman_efficiency': {'raman_coefficient': "the library's legacy raman_efficiency is deliberately converted back to "
                                              "the newer 'raman_coefficient' form (pinned by the shipped expected files); "
                                              "that the loader consumes it is checked by R2.consumed"},
}


def written_keys(repo, func):
    """keys stored by subscript assignment  X[K] = ...  (constants resolved), with the store node"""
    out = []
    mod = func.module
    for n in walk_no_nested(func.node):
        if isinstance(n, ast.Assign):
            for t in n.targets:
                if isinstance(t, ast.Subscript):
                    sl = t.slice
                    k = None
                    if isinstance(sl, ast.Constant) and isinstance(sl.value, str):
                        k = sl.value
                    elif isinstance(sl, ast.Name):
                        r = repo.resolve_name(mod, sl.id)
                        if isinstance(r, tuple) and r[0] == 'const' and isinstance(r[1], ast.Constant):
                            k = r[1].value
                    if isinstance(k, str):
                        out.append((k, t, n))
    return out


def iterated_keys(repo, func):
    """K such that func has  for x in json_data[K] / json_data.get(K, ..)"""
    out = set()
    for n in walk_no_nested(func.node):
        if isinstance(n, ast.For):
            it = n.iter
            k = None
            if isinstance(it, ast.Subscript):
                k = it.slice
            elif isinstance(it, ast.Call) and isinstance(it.func, ast.Attribute) and it.func.attr == 'get' and it.args:
                k = it.args[0]
            if isinstance(k, ast.Constant) and isinstance(k.value, str):
                out.add(k.value)
            elif isinstance(k, ast.Name):
                r = repo.resolve_name(func.module, k.id)
                if isinstance(r, tuple) and r[0] == 'const' and isinstance(r[1], ast.Constant):
                    out.add(r[1].value)
    return out


def partial_iterations(repo, func):
    """(K, node) for  `for x in <json_data[K] or json_data.get(K, ..)>[a:b]`"""
    out = []
    for n in walk_no_nested(func.node):
        if isinstance(n, ast.For) and isinstance(n.iter, ast.Subscript) and isinstance(n.iter.slice, ast.Slice):
            inner = n.iter.value
            k = None
            if isinstance(inner, ast.Subscript):
                k = inner.slice
            elif isinstance(inner, ast.Call) and isinstance(inner.func, ast.Attribute) and inner.func.attr == 'get' and inner.args:
                k = inner.args[0]
            if isinstance(k, ast.Constant) and isinstance(k.value, str):
                out.append((k.value, n.iter))
    return out


def const_indexed(repo, func):
    """(K, node) for  json_data[K][<int>]"""
    out = []
    for n in walk_no_nested(func.node):
        if isinstance(n, ast.Subscript) and isinstance(n.slice, ast.Constant) and isinstance(n.slice.value, int) and \
                isinstance(n.value, ast.Subscript) and isinstance(n.value.slice, ast.Constant) and \
                isinstance(n.value.slice.value, str) and isinstance(n.value.value, ast.Name):
            out.append((n.value.slice.value, n))
    return out


LOADER_OF = {'Edfa': 'Amp', 'Fiber': 'Fiber', 'RamanFiber': 'RamanFiber', 'Span': 'Span', 'SI': 'SI', 'Roadm': 'Roadm',
             'Transceiver': 'Transceiver'}
# keys that are structural parts of a nested value, not entry keys consumed by a loader
NESTED_OK = {'g0', 'frequency_offset', 'reference_frequency', 'frequency', 'value', 'min_value', 'max_value', 'step'}


def loader_literals(repo, clsname):
    jio = repo.module('gnpy.tools.json_io')
    c = jio.classes.get(clsname)
    if c is None:
        raise AnchorMissing(f'json_io.{clsname}')
    out = set()
    for k in repo.mro(c):
        out |= read_keys(k.node)
    return out


def read_keys(tree):
    """string keys in *reading* positions: default tables, x['k'] loads, 'k' in x, x.get('k') / x.pop('k'),
    keyword names and parameter names"""
    out = set()
    for n in ast.walk(tree):
        if isinstance(n, ast.Dict):
            par = getattr(n, '_parent', None)
            if isinstance(par, (ast.Assign, ast.AnnAssign)):
                out |= {k.value for k in n.keys if isinstance(k, ast.Constant) and isinstance(k.value, str)}
        elif isinstance(n, ast.Subscript) and isinstance(n.ctx, ast.Load) and isinstance(n.slice, ast.Constant) and \
                isinstance(n.slice.value, str):
            out.add(n.slice.value)
        elif isinstance(n, ast.Compare) and isinstance(n.left, ast.Constant) and isinstance(n.left.value, str) and \
                any(isinstance(o, (ast.In, ast.NotIn)) for o in n.ops):
            out.add(n.left.value)
        elif isinstance(n, ast.Call) and isinstance(n.func, ast.Attribute) and n.func.attr in ('get', 'pop', 'setdefault') \
                and n.args and isinstance(n.args[0], ast.Constant) and isinstance(n.args[0].value, str):
            out.add(n.args[0].value)
        elif isinstance(n, ast.arg):
            out.add(n.arg)
    return out


def r2_siblings(ctx):
    repo = ctx.repo
    util = repo.module(UTIL)
    pairs = sorted(n[len('convert_'):] for n in util.functions if n.startswith('convert_') and
                   not n.startswith('convert_back_') and f'convert_back_{n[len("convert_"):]}' in util.functions
                   and n not in ('convert_dict',))
    params_lits = None
    for p in pairs:
        f, b = util.functions[f'convert_{p}'], util.functions[f'convert_back_{p}']
        msgs = set()
        lf, lb = resolved_literals(repo, f, msgs=msgs), resolved_literals(repo, b, msgs=msgs)
        lf, lb = lf - msgs, lb - msgs
        for exc in VOCAB_EXCEPTIONS.get(p, {}):
            lf.discard(exc)
            lb.discard(exc)
        only_f, only_b = sorted(lf - lb), sorted(lb - lf)
        ctx.check('R2.vocabulary', f'{site(f)} / {site(b)}', not only_f and not only_b, f'{UTIL}|vocab|{p}',
                  f'convert_{p} and convert_back_{p} do not use the same key vocabulary',
                  f'only forward: {only_f}; only backward: {only_b}')
        # domain: forward iterates all entries of json_data[K] -> backward must not address a fixed entry
        it_f = iterated_keys(repo, f)
        for r in [x for x in [repo.resolve_name(util, c.func.id) for c in walk_no_nested(f.node)
                              if isinstance(c, ast.Call) and isinstance(c.func, ast.Name)] if isinstance(x, Func)]:
            pass
        for k, node in const_indexed(repo, b):
            if k in it_f:
                ctx.bad('R2.domain', site(b, node), f'{b.qual}|fixed-entry|{k}',
                        f'convert_{p} converts every entry of {k!r} but convert_back_{p} only converts entry '
                        f'[{node.slice.value}]: later entries keep their YANG form', ast.unparse(node))
        partial = partial_iterations(repo, b)
        for k, node in partial:
            if k in it_f:
                ctx.bad('R2.domain', site(b, node), f'{b.qual}|partial-iteration|{k}',
                        f'convert_{p} converts every entry of {k!r} but convert_back_{p} iterates over a slice of them only',
                        ast.unparse(node))
        if it_f and not [1 for k, _ in const_indexed(repo, b) if k in it_f] and not [1 for k, _ in partial if k in it_f]:
            ctx.ok('R2.domain', f'{site(f)} / {site(b)}', f'both twins range over all entries of {sorted(it_f)}')
        # consumption of written-back keys
        for k, tgt, stmt in written_keys(repo, b):
            if k in NESTED_OK:
                continue
            root = root_name(tgt)
            # which entry list does the stored-into object come from?
            defs = local_defs(b.node)
            src = derives(b.node, tgt.value, stop=b.params)
            kinds = set()
            for n in walk_no_nested(b.node):
                # the loop that binds the object stored into: the one that encloses the store (another loop of the function may
                # re-use the same variable name for the entries of another section)
                if isinstance(n, ast.For) and isinstance(n.target, ast.Name) and (n.target.id == root) and \
                        any(x is stmt for x in ast.walk(n)):
                    it = n.iter
                    kk = it.slice if isinstance(it, ast.Subscript) else (
                        it.args[0] if isinstance(it, ast.Call) and it.args else None)
                    if isinstance(kk, ast.Constant):
                        kinds.add(kk.value)
                    elif isinstance(kk, ast.Name):
                        r = repo.resolve_name(util, kk.id)
                        if isinstance(r, tuple) and r[0] == 'const' and isinstance(r[1], ast.Constant):
                            kinds.add(r[1].value)
            if root == b.params[0] and isinstance(tgt.value, ast.Name):
                continue         # document-level key (e.g. nf_fit_coeff of an edfa-config)
            for kind in sorted(kinds):
                if kind in LOADER_OF:
                    lits = loader_literals(repo, LOADER_OF[kind])
                    where = f'json_io.{LOADER_OF[kind]}'
                elif kind == 'elements':
                    if params_lits is None:
                        params_lits = set()
                        for m in ('gnpy.core.parameters', 'gnpy.core.elements', 'gnpy.tools.json_io'):
                            params_lits |= read_keys(repo.module(m).tree)
                    lits, where = params_lits, 'gnpy.core.parameters / elements'
                else:
                    continue
                ctx.check('R2.consumed', f'{site(b, stmt)} key {k!r} -> {kind}', k in lits, f'{b.qual}|writes|{kind}|{k}',
                          f'convert_back_{p} writes key {k!r} into {kind} entries but {where} never reads that key '
                          '(the converted value is silently ignored on load)')
    ctx.need('R2.vocabulary', 8)
    ctx.need('R2.domain', 3)
    ctx.need('R2.consumed', 6)


# ------------------------------------------------------------------------------------------------ R3
def r3_precision(ctx):
    repo = ctx.repo
    y = YangModels(repo.root)
    pm = repo.module('gnpy.yang.precision_dict')
    pd = pm.constants.get('PRECISION_DICT')
    if not isinstance(pd, ast.Dict):
        raise AnchorMissing('gnpy.yang.precision_dict.PRECISION_DICT literal')
    table = {}
    for k, v in zip(pd.keys, pd.values):
        try:
            table[k.value] = ast.literal_eval(v)
        except Exception:
            raise CannotAnalyse(f'PRECISION_DICT[{ast.unparse(k)}] is not a literal')
    # default used by convert_dict for names absent from the table
    cd = repo.func(UTIL, 'convert_dict')
    default = None
    for n in walk_no_nested(cd.node):
        if isinstance(n, ast.Call) and isinstance(n.func, ast.Attribute) and n.func.attr == 'get' and len(n.args) == 2 \
                and isinstance(n.args[1], ast.Constant):
            default = n.args[1].value
    if default is None:
        raise CannotAnalyse('default precision of convert_dict not found')
    for name, occ in sorted(y.leaves.items()):
        precs = set()
        for f, p, path in occ:
            precs |= p
        if None in precs:
            ctx.cannot('R3.precision', f'leaf {name}', f'unresolved YANG type in {[o[0] for o in occ]}')
            continue
        num = [p for p in precs if p >= 0]
        want = max(num) if num else -1
        files = sorted({o[0] for o in occ})
        st = f'gnpy/yang/precision_dict.py PRECISION_DICT[{name!r}] vs {files}'
        if name in table:
            ctx.check('R3.precision', st, table[name] == want, f'precision|{name}',
                      f'PRECISION_DICT[{name!r}] = {table[name]} but the YANG leaves named {name!r} declare '
                      f'{sorted(precs)} (expected {want}): values are truncated or mistyped on conversion')
        else:
            ctx.check('R3.precision', st, want in (default, -1) or not num, f'precision|{name}',
                      f'leaf {name!r} is absent from PRECISION_DICT, so the default {default} is used, but the YANG '
                      f'models declare {sorted(precs)}')
    ctx.extra['yang_leaves'] = len(y.leaves)
    ctx.need('R3.precision', 150, '172 leaf names in gnpy-*.yang')


# ------------------------------------------------------------------------------------------------ R4
EXEMPT_SOURCES = {
    'extra_config_filenames': 'amplifier extra-config (edfa-config) files are not one of the five document kinds of '
                              'the property (topology, equipment, service, spectrum, simulation parameters)',
}


def r4_loaders(ctx):
    repo = ctx.repo
    good = 0
    for mname in ('gnpy.tools.json_io', 'gnpy.tools.cli_examples', 'gnpy.tools.worker_utils'):
        for f in [x for x in repo.all_funcs() if x.module.name == mname]:
            if f.name in ('load_json', 'load_gnpy_json', 'save_json', 'save_gnpy_json'):
                continue
            for c in [n for n in walk_no_nested(f.node) if isinstance(n, ast.Call)]:
                nm = c.func.id if isinstance(c.func, ast.Name) else (c.func.attr if isinstance(c.func, ast.Attribute) else None)
                if nm == 'load_gnpy_json':
                    good += 1
                    ctx.ok('R4.loaders', site(f, c), ast.unparse(c))
                    continue
                raw = nm == 'load_json' or (nm in ('load', 'loads') and isinstance(c.func, ast.Attribute) and
                                            isinstance(c.func.value, ast.Name) and c.func.value.id == 'json')
                if not raw:
                    continue
                par = getattr(c, '_parent', None)
                if isinstance(par, ast.Call) and isinstance(par.func, ast.Name) and par.func.id == 'yang_to_legacy':
                    ctx.ok('R4.loaders', site(f, c), 'wrapped in yang_to_legacy')
                    continue
                srcs = set()
                comp = enclosing(c, (ast.DictComp, ast.ListComp, ast.GeneratorExp, ast.SetComp))
                bound = {x.id for g in comp.generators for x in ast.walk(g.target) if isinstance(x, ast.Name)} if comp is not None else set()
                for a in c.args:
                    # a variable of the enclosing comprehension stands for the elements of ITS iterable (another comprehension of
                    # the function may use the same variable name for something else)
                    if names_in(a) & bound:
                        continue
                    srcs |= derives(f.node, a, stop=f.params)
                if comp is not None:
                    for g in comp.generators:
                        srcs |= names_in(g.iter)
                ex = [s for s in srcs if s in EXEMPT_SOURCES]
                if ex:
                    ctx.ok('R4.loaders', site(f, c), f'exempt: {EXEMPT_SOURCES[ex[0]]}')
                    continue
                ctx.bad('R4.loaders', site(f, c), f'{f.qual}|raw-load|{ast.unparse(c)}',
                        f'{ast.unparse(c)} reads a user document without the YANG->legacy conversion (load_gnpy_json): '
                        'the YANG form of this document is not understood here')
    if good < 6:
        ctx.cannot('R4.loaders', '-', f'only {good} load_gnpy_json call sites found (6 on the reference tree)')
    ctx.need('R4.loaders', 7)


# ------------------------------------------------------------------------------------------------ R5
def r5_aliases(ctx):
    repo = ctx.repo
    f0 = repo.func('gnpy.tools.json_io', '_equipment_from_json')
    # the alias loops: in the loader itself, or in a generator of the module that yields (alias, per-alias entry) pairs to it
    found = [(f0, n) for n in walk_no_nested(f0.node) if isinstance(n, ast.For) and 'other_name' in ast.unparse(n.iter)]
    shared = 0
    for g in repo.module('gnpy.tools.json_io').functions.values():
        if g is f0 or not any(isinstance(x, ast.Yield) for x in ast.walk(g.node)):
            continue
        uses = [lp for lp in walk_no_nested(f0.node) if isinstance(lp, ast.For) and isinstance(lp.iter, ast.Call) and
                getattr(lp.iter.func, 'id', '') == g.name]
        gl = [n for n in walk_no_nested(g.node) if isinstance(n, ast.For) and 'other_name' in ast.unparse(n.iter)]
        if uses and gl:
            # every consumer stores the object built from the yielded entry under the yielded name
            okc = all(isinstance(lp.target, ast.Tuple) and len(lp.target.elts) == 2 and any(
                isinstance(s_, ast.Assign) and isinstance(s_.targets[0], ast.Subscript) and
                ast.unparse(s_.targets[0].slice) == ast.unparse(lp.target.elts[0]) and isinstance(s_.value, ast.Call) and
                any(k.arg is None and ast.unparse(k.value) == ast.unparse(lp.target.elts[1]) for k in s_.value.keywords)
                for s_ in lp.body) for lp in uses)
            ctx.check('R5.aliases', f'{site(f0)} consumers of {g.name}', okc and len(uses) >= 2, key(f0, f'alias-consumers|{g.name}'),
                      'an equipment built for a name is not stored under that name from the entry prepared for it')
            found += [(g, n) for n in gl]
            shared = len(uses) - 1
    for f, lp in found:
        var = lp.target.id if isinstance(lp.target, ast.Name) else None
        ctor = None
        for n in walk_no_nested(lp):
            if isinstance(n, ast.Call) and any(k.arg is None for k in n.keywords):
                ctor = n
            if isinstance(n, ast.Yield) and isinstance(n.value, ast.Tuple) and len(n.value.elts) == 2 and \
                    isinstance(n.value.elts[0], ast.Name) and n.value.elts[0].id == var:
                # handed to the consumers as (alias, entry): the entry plays the part of the constructor's ** argument
                ctor = ast.Call(func=ast.Name(id='yield', ctx=ast.Load()), args=[], keywords=[ast.keyword(arg=None, value=n.value.elts[1])])
        if var is None:
            ctx.cannot('R5.aliases', site(f, lp), 'alias loop with an unforeseen target')
            continue
        if ctor is None:
            ctx.bad('R5.aliases', site(f, lp), key(f, f'alias-shared-object|{ast.unparse(lp.iter)}'),
                    'the alias loop does not build an entry per alias (no constructor call from a per-alias dict inside '
                    'the loop): every name gets the same object, which reports one name only')
            continue
        d = next(k.value for k in ctor.keywords if k.arg is None)
        dname = d.id if isinstance(d, ast.Name) else None
        # the dict must be a per-iteration copy
        copy_ok = False
        tv_ok = False
        pop_ok = False
        tv_wrong = None
        for s in lp.body:
            if isinstance(s, ast.Assign) and isinstance(s.targets[0], ast.Name) and s.targets[0].id == dname and \
                    isinstance(s.value, ast.Call) and (getattr(s.value.func, 'id', None) in ('deepcopy', 'dict', 'copy')
                                                       or getattr(s.value.func, 'attr', None) in ('copy', 'deepcopy')):
                copy_ok = True
            if isinstance(s, ast.Assign) and isinstance(s.targets[0], ast.Subscript) and \
                    isinstance(s.targets[0].slice, ast.Constant) and s.targets[0].slice.value == 'type_variety':
                tgt = s.targets[0].value
                if isinstance(tgt, ast.Name) and tgt.id == dname and isinstance(s.value, ast.Name) and s.value.id == var:
                    tv_ok = True
                else:
                    tv_wrong = ast.unparse(s)
            if isinstance(s, ast.Expr) and isinstance(s.value, ast.Call) and isinstance(s.value.func, ast.Attribute) and \
                    s.value.func.attr == 'pop' and isinstance(s.value.func.value, ast.Name) and \
                    s.value.func.value.id == dname and s.value.args and \
                    isinstance(s.value.args[0], ast.Constant) and s.value.args[0].value == 'other_name':
                pop_ok = True
        st = f'{site(f, lp)} -> {ast.unparse(ctor.func)}'
        kk = ast.unparse(ctor.func)
        ctx.check('R5.aliases', f'{st} copy', copy_ok, key(f, f'alias-copy|{kk}'),
                  'the alias entry handed to the constructor is not a per-alias copy of the library entry')
        ctx.check('R5.aliases', f'{st} name', tv_ok and tv_wrong is None, key(f, f'alias-name|{kk}'),
                  'the entry built for an alias does not get type_variety from the alias being built '
                  '(each name must report itself)', tv_wrong or '')
        ctx.check('R5.aliases', f'{st} list removed', pop_ok, key(f, f'alias-pop|{kk}'),
                  'the alias list is not removed from the per-alias entry')
    ctx.need('R5.aliases', 4, 'Edfa and Transceiver loops x 3 (or one shared generator x 3 + its consumers)')


def r2b_accumulators(ctx):
    """in the converters, a list / dict initialised empty and then filled over several steps (the iterations of a loop, or the steps
    of a loop over a literal tuple that the canonical model writes out) and read afterwards is an accumulator: between its
    initialisation and its last use it must be grown (append / extend / += / item store), never re-assigned (which keeps only the
    last step's entries)"""
    repo = ctx.repo
    util = repo.module(UTIL)
    GROW = ('append', 'extend', 'update', 'insert', 'setdefault')
    for f in util.functions.values():
        if not (f.name.startswith('convert_') or f.name.startswith('process_') or f.name.startswith('reorder_')):
            continue
        for holder in ast.walk(f.node):
            for fld in ('body', 'orelse'):
                body = getattr(holder, fld, None)
                if not isinstance(body, list) or not body or not isinstance(body[0], ast.stmt):
                    continue
                for i, s0 in enumerate(body):
                    if not (isinstance(s0, ast.Assign) and isinstance(s0.targets[0], ast.Name) and isinstance(s0.value, (ast.List, ast.Dict))
                            and not (s0.value.elts if isinstance(s0.value, ast.List) else s0.value.keys)):
                        continue
                    nm = s0.targets[0].id
                    after = body[i + 1:]
                    last = max((k for k, s in enumerate(after) if nm in names_in(s)), default=None)
                    if last is None:
                        continue
                    region = after[:last + 1]
                    grown, reassigned, in_loop, n_re, re_loop = [], None, False, 0, False
                    for s in region:
                        for n in ast.walk(s):
                            g = None
                            if isinstance(n, ast.Call) and isinstance(n.func, ast.Attribute) and isinstance(n.func.value, ast.Name) \
                                    and n.func.value.id == nm and n.func.attr in GROW:
                                g = n
                            if isinstance(n, ast.AugAssign) and isinstance(n.target, ast.Name) and n.target.id == nm:
                                g = n
                            if isinstance(n, ast.Assign) and isinstance(n.targets[0], ast.Subscript) and \
                                    isinstance(n.targets[0].value, ast.Name) and n.targets[0].value.id == nm:
                                g = n
                            if g is not None:
                                grown.append(g)
                                in_loop = in_loop or isinstance(s, (ast.For, ast.While)) or enclosing(g, (ast.For, ast.While)) in \
                                    [x for x in ast.walk(s) if isinstance(x, (ast.For, ast.While))]
                            if isinstance(n, ast.Assign) and any(isinstance(t, ast.Name) and t.id == nm for t in n.targets) and \
                                    nm not in names_in(n.value):
                                reassigned = n
                                n_re += 1
                                re_loop = re_loop or enclosing(n, (ast.For, ast.While)) in \
                                    [x for x in ast.walk(s) if isinstance(x, (ast.For, ast.While))]
                    if not grown and reassigned is not None and (n_re >= 2 or re_loop):
                        # initialised empty, then only ever replaced, step after step: each step discards the previous one
                        ctx.bad('R2.accumulate', site(f, reassigned), f'{f.qual}|accumulator-overwritten|{nm}',
                                f'{nm} is initialised empty and then re-assigned at each of several steps: only the last step survives '
                                '(e.g. a ROADM mixing per-degree target types loses all but one)', ast.unparse(reassigned)[:160])
                        continue
                    if not grown or not (in_loop or len(grown) >= 2):
                        continue
                    if reassigned is not None:
                        ctx.bad('R2.accumulate', site(f, reassigned), f'{f.qual}|accumulator-overwritten|{nm}',
                                f'{nm} collects entries over several steps but is re-assigned on the way: only the '
                                'last step survives (e.g. a ROADM mixing per-degree target types loses all but one)',
                                ast.unparse(reassigned)[:160])
                    else:
                        ctx.ok('R2.accumulate', site(f, s0), f'{nm} grown by {ast.unparse(grown[0])[:80]} (+{len(grown) - 1})')
    ctx.need('R2.accumulate', 1, 'convert_degree.new_targets')



def r6_no_value_filter(ctx):
    """R6: a converter never drops a list element because of its VALUE: comprehension filters in the two converter modules are
    key tests (membership / equality comparisons), never the truthiness of the converted item - a zero efficiency, a zero
    offset or an empty string is data"""
    repo = ctx.repo
    n = 0
    for mod in ('gnpy.tools.yang_convert_utils', 'gnpy.tools.convert_legacy_yang'):
        m = repo.module(mod)
        for f in list(m.functions.values()) + [g for c in m.classes.values() for g in c.all_funcs()]:
            for comp in [x for x in ast.walk(f.node) if isinstance(x, (ast.ListComp, ast.DictComp, ast.SetComp, ast.GeneratorExp))]:
                for g_ in comp.generators:
                    for t in g_.ifs:
                        n += 1
                        parts = t.values if isinstance(t, ast.BoolOp) else [t]
                        ok = all(isinstance(p, ast.Compare) and all(isinstance(o, (ast.In, ast.NotIn, ast.Eq, ast.NotEq, ast.Is, ast.IsNot)) for o in p.ops)
                                 for p in parts)
                        ctx.check('R6.no-value-filter', f'{site(f, comp)} if {ast.unparse(t)[:40]}', ok, f'{f.qual}|filter|{ast.unparse(t)[:40]}',
                                  f'the conversion keeps an element only if `{ast.unparse(t)[:60]}` is truthy: elements whose value is 0 / empty '
                                  'are silently dropped and the converted file no longer describes the same equipment', ast.unparse(comp)[:160])
    ctx.need('R6.no-value-filter', 3)


def r7_range_round_trip(ctx):
    """R7: list <-> keyed form of a range is a bijection: convert_range_to_dict puts element i of [min, max, step] under its key;
    every list rebuilt from the keyed form (Span and SI sites of convert_back_delta_power_range) puts the key back at the
    position it came from"""
    repo = ctx.repo
    fw = repo.func(UTIL, 'convert_range_to_dict')
    P = fw.params[0]
    dicts = [n for n in ast.walk(fw.node) if isinstance(n, ast.Dict)]
    pos = {}
    if len(dicts) == 1:
        for k, v in zip(dicts[0].keys, dicts[0].values):
            if isinstance(k, ast.Constant) and isinstance(v, ast.Subscript) and ast.unparse(v.value) == P and isinstance(v.slice, ast.Constant):
                pos[k.value] = v.slice.value
    ctx.check('R7.range-round-trip', site(fw), sorted(pos.values()) == [0, 1, 2] and len(pos) == 3, key(fw, 'forward'),
              'convert_range_to_dict does not map the three list positions to three keys', str(pos))
    bw = repo.func(UTIL, 'convert_back_delta_power_range')
    n = 0
    for lst in [x for x in ast.walk(bw.node) if isinstance(x, ast.List) and len(x.elts) == 3 and all(
            isinstance(e, ast.Subscript) and isinstance(e.slice, ast.Constant) and isinstance(e.slice.value, str) for e in x.elts)]:
        n += 1
        keys = [e.slice.value for e in lst.elts]
        ok = len({ast.unparse(e.value) for e in lst.elts}) == 1 and [pos.get(k) for k in keys] == [0, 1, 2]
        ctx.check('R7.range-round-trip', f'{site(bw, lst)} {keys}', ok, key(bw, f'back|{stmt_target(lst)}'),
                  f'the range list is rebuilt as {keys}; the keyed form was filled from positions {pos}: legacy -> YANG -> legacy would permute '
                  'the range (a reversed sweep)', ast.unparse(lst)[:120])
    ctx.need('R7.range-round-trip', 3)


def stmt_target(node):
    cur = node
    while cur is not None and not isinstance(cur, ast.Assign):
        cur = getattr(cur, '_parent', None)
    return ast.unparse(cur.targets[0])[:40] if cur is not None else '?'


def r8_loader_reads(ctx):
    """R8: the legacy loader reads from a library fibre's raman_efficiency only what the legacy <-> YANG conversion carries
    (cr, frequency_offset): a key the loader honours but the converter drops would make the two forms of one library differ"""
    repo = ctx.repo
    fib = repo.module('gnpy.tools.json_io').classes.get('Fiber')
    if fib is None:
        raise AnchorMissing('json_io.Fiber')
    f = fib.methods['__init__']
    branch = [n for n in walk_no_nested(f.node) if isinstance(n, ast.If) and ast.unparse(n.test).replace(' ', '') == "'raman_efficiency'inkwargs"]
    if len(branch) != 1:
        raise CannotAnalyse('json_io.Fiber.__init__: raman_efficiency branch')
    dvar = [s.targets[0].id for s in branch[0].body if isinstance(s, ast.Assign) and ast.unparse(s.value) == "kwargs['raman_efficiency']"]
    carried = set()
    for nm in ('convert_raman_efficiency', 'convert_back_raman_efficiency'):
        g = repo.func(UTIL, nm)
        for d in ast.walk(g.node):
            if isinstance(d, ast.Dict):
                carried |= {k.value for k in d.keys if isinstance(k, ast.Constant)}
            if isinstance(d, ast.Call) and isinstance(d.func, ast.Attribute) and d.func.attr in ('pop', 'get') and d.args and isinstance(d.args[0], ast.Constant):
                carried.add(d.args[0].value)
            # a key chosen among a literal tuple of names (`for name in ('cr', 'g0') if name in ..`, `in ('cr', 'g0')`) carries each
            if isinstance(d, (ast.comprehension,)) and isinstance(d.iter, (ast.Tuple, ast.List)) and all(isinstance(e, ast.Constant) and isinstance(e.value, str) for e in d.iter.elts):
                carried |= {e.value for e in d.iter.elts}
            if isinstance(d, ast.Compare) and len(d.ops) == 1 and isinstance(d.ops[0], ast.In) and isinstance(d.left, ast.Constant) and isinstance(d.left.value, str):
                carried.add(d.left.value)
    reads = set()
    if dvar:
        for n in [x for s in branch[0].body for x in ast.walk(s)]:
            if isinstance(n, ast.Call) and isinstance(n.func, ast.Attribute) and n.func.attr in ('pop', 'get', 'setdefault') and \
                    ast.unparse(n.func.value) == dvar[0] and n.args and isinstance(n.args[0], ast.Constant):
                reads.add(n.args[0].value)
            if isinstance(n, ast.Subscript) and isinstance(n.ctx, ast.Load) and ast.unparse(n.value) == dvar[0] and isinstance(n.slice, ast.Constant):
                reads.add(n.slice.value)
    extra = sorted(reads - carried)
    ctx.check('R8.loader-reads', site(f, branch[0]), bool(dvar) and not extra and 'cr' in reads, key(f, 'raman-efficiency-reads'),
              f'the legacy loader reads {extra} from raman_efficiency, which the legacy <-> YANG conversion does not carry: the same library '
              'loads differently in its two forms', f'reads {sorted(reads)}; carried {sorted(carried)}')
    ctx.need('R8.loader-reads', 1)


def r9_alias_complete_and_dump(ctx):
    """R9: (a) an alias copy of a transceiver mode is taken AFTER the mode was completed: no `mode_params[...] = ..` default is set
    after the loop that duplicates the mode for its other names; (b) a converted document is printed with all its top-level
    siblings (libyang PrintFlags.WithSiblings): several spectrum partitions / list entries are siblings"""
    repo = ctx.repo
    cls = repo.module('gnpy.tools.json_io').classes.get('Transceiver')
    f = cls.methods['__init__']
    ok = False
    for lp in [x for x in walk_no_nested(f.node) if isinstance(x, ast.For) and isinstance(x.target, ast.Name) and ast.unparse(x.iter) == 'self.mode']:
        mp = lp.target.id
        dup = [s for s in ast.walk(lp) if isinstance(s, ast.For) and 'other_name' in ast.unparse(s.iter)]
        if len(dup) != 1:
            continue
        late = [s for s in ast.walk(lp) if isinstance(s, ast.Assign) and isinstance(s.targets[0], ast.Subscript) and
                ast.unparse(s.targets[0].value) == mp and s.lineno > dup[0].end_lineno]
        ok = not late
    ctx.check('R9.alias-complete', site(f), ok, key(f, 'alias-after-defaults'),
              'a default is written into a transceiver mode after its alias copies were taken: the aliases miss the parameter and are no '
              'longer the same mode as the primary entry')
    d = repo.func(UTIL, 'dump_data')
    pr = [c for c in ast.walk(d.node) if isinstance(c, ast.Call) and getattr(c.func, 'attr', '') == 'print']
    okd = len(pr) == 1 and any(ast.unparse(a).endswith('PrintFlags.WithSiblings') for a in pr[0].args)
    ctx.check('R9.dump-siblings', site(d), okd, key(d, 'with-siblings'),
              'the converted document is not printed with its top-level siblings: only the first of several top-level entries '
              '(spectrum partitions) would be written')
    ctx.need('R9.alias-complete', 1)
    ctx.need('R9.dump-siblings', 1)

def r12_parallel_lists(ctx):
    """R12: parallel lists of a legacy document (frequencies with their loss coefficients, frequency offsets with their Raman / gain
    values) become YANG entries pair by pair: where the converters walk them with zip, both are taken in the order they stand in -
    none is sorted, reversed, sliced or de-duplicated on its own (that would attach each value to another abscissa whenever the
    legacy list is not already in that order)"""
    repo = ctx.repo
    n = 0
    for f in repo.module(UTIL).functions.values():
        defs = local_defs(f.node)
        for c in ast.walk(f.node):
            if not (isinstance(c, ast.Call) and isinstance(c.func, ast.Name) and c.func.id == 'zip' and len(c.args) >= 2):
                continue
            n += 1

            def shape(a):
                a = resolved(defs, a)
                if isinstance(a, ast.Call) and isinstance(a.func, ast.Name) and a.func.id in ('sorted', 'reversed', 'set', 'list', 'tuple'):
                    inner = shape(a.args[0]) if a.args else ()
                    return ((a.func.id,) if a.func.id not in ('list', 'tuple') else ()) + inner
                if isinstance(a, ast.Subscript) and isinstance(a.slice, ast.Slice):
                    return ('slice:' + ast.unparse(a.slice),) + shape(a.value)
                return ()
            shapes = [shape(a) for a in c.args]
            # the same reversal / slice on every list keeps the pairs; a sort or a set never does (each list gets its own order)
            ok = len(set(shapes)) == 1 and not any(t in ('sorted', 'set') for sh in shapes for t in sh)
            ctx.check('R12.parallel-lists', f'{site(f, c)}', ok, key(f, 'zip|' + '|'.join(ast.unparse(resolved(defs, a))[:40] for a in c.args)),
                      f'{f.name} pairs {ast.unparse(c)[:120]}: one of the parallel lists is re-ordered / cut on its own {shapes}, so a legacy '
                      'document whose list is not in that order converts to other (frequency, value) pairs than it states')
    ctx.need('R12.parallel-lists', 1)


RULES = [('R2.accumulate', r2b_accumulators), ('R1.pairing', r1_pairing), ('R2.siblings', r2_siblings), ('R3.precision', r3_precision),
         ('R4.loaders', r4_loaders), ('R5.aliases', r5_aliases), ('R6.no-value-filter', r6_no_value_filter), ('R7.range-round-trip', r7_range_round_trip), ('R8.loader-reads', r8_loader_reads), ('R9.alias-and-dump', r9_alias_complete_and_dump), ('R12.parallel-lists', r12_parallel_lists)]
