"""C20 - spreadsheet inputs convert to the network and services they describe.

 R1 header tables : every target name of the four header tables is an attribute the row class knows (default_values,
                    for Link/Eqpt also the west twin); each `west` sub-table is the `east` one with the prefix swapped.
 R2 mirrors       : create_east_*/create_west_* are the same function under east <-> west (modulo the documented
                    placement of 'type' for equipment and the swapped direction of the fibre name) and read only their
                    own side; the amplifier settings go to the matching operational keys.
 R3 defaulting    : row values are dropped only when empty ('' or None: a 0 is a value); Link defaults west to the EAST
                    VALUE, Eqpt / Node / Roadm to the table default.
 R4 units         : service sheet: spacing and bandwidth GHz/Gbit/s x 1e9, power dBm -> W (db2lin x 1e-3), channel count
                    int; source / destination are the site transceivers ('trx <site>'); one synchronisation vector per
                    request with a 'disjoint from' entry, route list split on ' | ' with the row's strictness.
 R5 errors        : every error list built by sanity_check / parse_excel reaches a raise NetworkTopologyError;
                    duplicate cities raise.
 R6 rows          : every non-empty row of a sheet is parsed (an empty row is skipped, it does not end the sheet).
 R7 node types    : parse_excel's node-type gate is exact and every later comparison of node_type uses a type the gate produces.
 R8 cable names   : names embedding a fibre direction pair from->to with the east cable id and to->from with the west one.
 R9 ILA degree    : every ILA whose number of links differs from 2 is corrected to a ROADM.
 R10 route index  : the live route list is never edited through the enumeration index of its snapshot (service sheet).
 R11 next node    : corresp_next_node walks over every passive line element and only those (truth table).
 R12 checks/trims : each sanity test follows the code that fills its list; both ends of a service route list are trimmed independently.
 R13 corrected routes: the service file is built from the result of correct_xls_route_list, after it ran.
 R14 link identity  : Link.__eq__ compares the two end cities (either orientation) and nothing else.
"""
import ast
import re

from ..model import AnchorMissing, CannotAnalyse, walk_no_nested
from ..cfg import CFG, fmt_path
from ..dataflow import names_in, local_defs
from .common import calls_to, site, key, stmt_of, enclosing, kwarg, holds_at

CV = 'gnpy.tools.convert'
SS = 'gnpy.tools.service_sheet'
EXPLANATION = (
    "Table and sibling agreement over the spreadsheet converters: the four header tables against the row classes "
    "(east/west twins), the east and west element builders compared as ASTs under the east<->west renaming, the "
    "empty-cell filter and west-defaults rule of each row class, the unit conversions and naming of the service rows, "
    "the reachability of a raise from every collected error list, and the row loop of the sheet parsers. Not decided: "
    "wiring for arbitrary degree mixes, name correction against the converted topology."
)
ASSUMPTIONS = ["openpyxl / xlrd return cell values as documented", "an f-string with the same text builds the same name"]
RULE_TEXT = ("sites: 4 header tables x their entries, 2 mirror pairs, 4 row classes, the service-row conversions, each error "
             "list, each row loop")


def lit(d):
    """python value of a (nested) dict literal of string constants"""
    return ast.literal_eval(d)


def r1_headers(ctx):
    repo = ctx.repo
    f = repo.func(CV, 'parse_excel')
    defs = local_defs(f.node)
    m = repo.module(CV)
    # the header table of a class = the dict literal handed to parse_sheet in the comprehension that builds the class
    tables = {}
    for cname in ('Link', 'Node', 'Eqpt', 'Roadm'):
        for c in calls_to(f, {cname}):
            comp = enclosing(c, ast.ListComp)
            it = comp.generators[0].iter if comp is not None else None
            if isinstance(it, ast.Call) and getattr(it.func, 'id', '') == 'parse_sheet' and len(it.args) >= 3 and isinstance(it.args[2], ast.Name):
                tables[it.args[2].id] = cname
    if sorted(tables.values()) != ['Eqpt', 'Link', 'Node', 'Roadm']:
        raise AnchorMissing(f'parse_excel: header tables of Link, Node, Eqpt, Roadm (found {sorted(tables.values())})')
    label = {'Link': 'link_headers', 'Node': 'node_headers', 'Eqpt': 'eqpt_headers', 'Roadm': 'roadm_headers'}
    for local_name, cname in sorted(tables.items(), key=lambda kv: kv[1]):
        tname = label[cname]
        d = [v for _, v in defs.get(local_name, []) if isinstance(v, ast.Dict)]
        if len(d) != 1:
            raise AnchorMissing(f'parse_excel: header table {tname}')
        tab = lit(d[0])
        cls = m.classes[cname]
        dv = lit(cls.class_assigns['default_values'])
        known = set(dv)
        if cname in ('Link', 'Eqpt'):
            known |= {'west' + k.rsplit('east', 1)[-1] for k in dv if k.startswith('east')}
        targets = []
        for k, v in tab.items():
            targets += list(v.values()) if isinstance(v, dict) else [v]
        for t in targets:
            ctx.check('R1.headers', f'{site(f, d[0])} {tname} -> {t}', t in known, key(f, f'{tname}|{t}'),
                      f'header table {tname} maps a column to {t!r}, which {cname} does not know: the cell would be silently dropped')
        unmapped = sorted(known - set(targets))
        ctx.check('R1.headers', f'{site(f, d[0])} {tname} covers {cname}', not unmapped, key(f, f'{tname}|covers'),
                  f'{cname} attributes {unmapped} have no column in {tname}')
        if 'east' in tab:
            e, w = tab['east'], tab.get('west', {})
            ok = list(e) == list(w) and all(w[k] == 'west' + e[k].rsplit('east', 1)[-1] and e[k].startswith('east') for k in e)
            ctx.check('R1.headers', f'{site(f, d[0])} {tname} west mirrors east', ok, key(f, f'{tname}|mirror'),
                      f'the west sub-table of {tname} is not the east one with the prefix swapped', f'{e} / {w}')
        # the class is built from this table's rows
        ctor = [c for c in calls_to(f, {cname}) if enclosing(c, ast.ListComp) is not None]
        ok = bool(ctor) and local_name in names_in(enclosing(ctor[0], ast.ListComp))
        ctx.check('R1.headers', f'{site(f)} {cname} rows from {tname}', ok, key(f, f'{tname}|rows'),
                  f'{cname} objects are not built from the rows parsed with {tname}')
    ctx.need('R1.headers', 40)


def swap(text):
    text = re.sub(r'\\beast\\b', '\\0E', text)
    return text


def mirror(node):
    """unparse with east <-> west swapped"""
    t = ast.unparse(node)
    t = t.replace('east', '\\0').replace('west', 'east').replace('\\0', 'west')
    return t


def r2_mirrors(ctx):
    repo = ctx.repo
    for a, b in (('create_east_fiber_element', 'create_west_fiber_element'), ('create_east_eqpt_element', 'create_west_eqpt_element')):
        fa, fb = repo.func(CV, a), repo.func(CV, b)
        body_a = [s for s in fa.node.body if not (isinstance(s, ast.Expr) and isinstance(s.value, ast.Constant))]
        body_b = [s for s in fb.node.body if not (isinstance(s, ast.Expr) and isinstance(s.value, ast.Constant))]
        # reads only its own side
        for f, own, other in ((fa, 'east', 'west'), (fb, 'west', 'east')):
            foreign = sorted({n.attr for n in ast.walk(f.node) if isinstance(n, ast.Attribute) and n.attr.startswith(other + '_')})
            ctx.check('R2.mirrors', f'{site(f)} own side only', not foreign, key(f, 'foreign-side'),
                      f'{f.name} reads {foreign} of the other direction')
        if 'fiber' in a:
            ta = '\n'.join(mirror(s) for s in body_a)
            tb = '\n'.join(ast.unparse(s) for s in body_b)
            # documented difference: the name states the direction of travel
            ta = ta.replace("({fiber.from_city} → {fiber.to_city})", '(DIR)')
            tb = tb.replace("({fiber.to_city} → {fiber.from_city})", '(DIR)')
            ok = ta == tb and '(DIR)' in ta and '(DIR)' in tb
            ctx.check('R2.mirrors', f'{site(fa)} / {site(fb)}', ok, f'{CV}|mirror|fiber',
                      'the east and west fibre builders differ by more than east <-> west and the direction stated in the name: one '
                      'direction would get a different length, loss, connector, type or PMD mapping', _first_diff(ta, tb))
            want = {'length': 'round(fiber.east_distance, 3)', 'length_units': 'fiber.distance_units', 'loss_coef': 'fiber.east_lineic',
                    'con_in': 'fiber.east_con_in', 'con_out': 'fiber.east_con_out'}
            d = next((n for n in ast.walk(fa.node) if isinstance(n, ast.Dict) and any(isinstance(k, ast.Constant) and k.value == 'length' for k in n.keys)), None)
            got = {k.value: ast.unparse(v) for k, v in zip(d.keys, d.values)} if d is not None else {}
            ctx.check('R2.mirrors', f'{site(fa)} sheet columns -> fibre params', got == want, f'{CV}|fiber-params',
                      'fibre params are not (length <- distance, loss_coef <- lineic att, con_in, con_out) of the row', f'{got}')
            tv = "'type_variety': fiber.east_fiber" in ast.unparse(fa.node)
            ctx.check('R2.mirrors', f'{site(fa)} fibre type', tv, f'{CV}|fiber-type', 'the fibre type is not the row\'s fibre type')
        else:
            # case analysis on the amplifier type cell ('' / 'fused' / anything else): what each builder puts under each key of the
            # element, whatever the arrangement of its branches (gscan/casedomain.py)
            from .common import through_locals
            from ..casedomain import tables, OTHER
            ta = tables(through_locals(fa.node, local_defs(fa.node)), 'node.east_amp_type.lower()', ['', 'fused', OTHER])
            tb = tables(through_locals(fb.node, local_defs(fb.node)), 'node.west_amp_type.lower()', ['', 'fused', OTHER])
            ma = {c: {k: v.replace('east', 'west') for k, v in t.items()} for c, t in ta.items()}
            ctx.check('R2.mirrors', f'{site(fa)} / {site(fb)}', ma == tb, f'{CV}|mirror|eqpt',
                      'the east and west equipment builders differ by more than east <-> west: for some amplifier type one direction '
                      'gets another element type, variety or operating point', _first_diff(str(ma), str(tb)))
            opd = "{'gain_target': node.east_amp_gain, 'delta_p': node.east_amp_dp, 'tilt_target': node.east_tilt_vs_wavelength, " \
                  "'out_voa': node.east_att_out, 'in_voa': node.east_att_in}"
            ok = ta[''].get('operational') == opd and ta[OTHER].get('operational') == opd and 'operational' not in ta['fused'] and \
                ta[''].get('type') == "'Edfa'" and ta[OTHER].get('type') == "'Edfa'" and ta['fused'].get('type') == "'Fused'" and \
                ta['fused'].get('params') == "{'loss': 0}" and 'type_variety' not in ta[''] and 'type_variety' not in ta['fused'] and \
                ta[OTHER].get('type_variety') == "f'{node.east_amp_type}'"
            ctx.check('R2.mirrors', f'{site(fa)} sheet columns -> operational', ok, f'{CV}|eqpt-operational',
                      'amplifier settings of the row do not land on (gain_target, delta_p, tilt_target, out_voa, in_voa) of an Edfa of the '
                      "named variety (no variety for an empty cell; 'fused' gives a Fused element with loss 0)", str(ta)[:300])
            for f, side in ((fa, 'east'), (fb, 'west')):
                uid = [v for n in ast.walk(f.node) if isinstance(n, ast.Dict) for k, v in zip(n.keys, n.values)
                       if isinstance(k, ast.Constant) and k.value == 'uid']
                ok = bool(uid) and ast.unparse(uid[0]) == f"f'{side} edfa in {{node.from_city}} to {{node.to_city}}'"
                ctx.check('R2.mirrors', f'{site(f)} name', ok, key(f, 'uid'),
                          f'the {side} amplifier of a site is not named after (site, facing neighbour)')
    ctx.need('R2.mirrors', 11)


def _first_diff(a, b):
    for i, (x, y) in enumerate(zip(a, b)):
        if x != y:
            return f'...{a[max(0, i - 40):i + 60]!r} vs ...{b[max(0, i - 40):i + 60]!r}'
    return f'lengths {len(a)} / {len(b)}'


def r3_defaulting(ctx):
    repo = ctx.repo
    m = repo.module(CV)
    for cname in ('Node', 'Link', 'Eqpt', 'Roadm'):
        cls = m.classes[cname]
        ua = cls.methods.get('update_attr')
        if ua is None:
            raise AnchorMissing(f'{cname}.update_attr')
        comp = [n for n in walk_no_nested(ua.node) if isinstance(n, ast.DictComp)]
        ok = False
        det = ''
        if len(comp) == 1 and len(comp[0].generators) == 1 and len(comp[0].generators[0].ifs) == 1:
            t = comp[0].generators[0].ifs[0]
            det = ast.unparse(t)
            v = comp[0].value.id if isinstance(comp[0].value, ast.Name) else None
            parts = t.values if isinstance(t, ast.BoolOp) and isinstance(t.op, ast.And) else []
            forms = {ast.unparse(p) for p in parts}
            ok = v is not None and forms == {f"{v} != ''", f'{v} is not None'}
        ctx.check('R3.defaulting', f'{site(ua)} empty cells', ok, key(ua, 'empty-filter'),
                  f"{cname}: a cell is treated as empty by something other than (value == '' or value is None): an explicit 0 would be "
                  'replaced by a default', det)
        lp = [n for n in walk_no_nested(ua.node) if isinstance(n, ast.For)]
        if cname in ('Link', 'Eqpt') and len(lp) == 1:
            body = lp[0].body
            sets = [s for s in body if isinstance(s, ast.Expr) and isinstance(s.value, ast.Call) and getattr(s.value.func, 'id', '') == 'setattr']
            # the value of each setattr: a `.get(key, default)` call, held in a local of the loop body or written in place
            def reaching(name, before):
                ds = [s for s in body[:body.index(before)] if isinstance(s, ast.Assign) and isinstance(s.targets[0], ast.Name) and s.targets[0].id == name]
                return ds[-1] if ds else None

            class _G:
                def __init__(self, st):
                    a = st.value.args[2] if len(st.value.args) == 3 else None
                    d = reaching(a.id, st) if isinstance(a, ast.Name) else None
                    self.var = a.id if d is not None else None
                    self.stmt = d if d is not None else st
                    self.value = d.value if d is not None else a
                    self.lineno = self.stmt.lineno
            gets = [g for g in (_G(s) for s in sets) if isinstance(g.value, ast.Call) and getattr(g.value.func, 'attr', '') == 'get' and
                    len(g.value.args) == 2]
            ok = len(sets) == 2 and len(gets) == 2
            det = ''
            if ok:
                dv = lp[0].target.elts[1].id                      # the table default
                g_e, g_w = gets
                east_var = g_e.var
                d_e, d_w = ast.unparse(g_e.value.args[1]), ast.unparse(g_w.value.args[1])
                det = f'east default {d_e}; west default {d_w} (east value in {east_var})'
                if cname == 'Link':
                    # west falls back to the value just computed for east
                    ok = d_e == dv and reaching(dv, g_e.stmt) is None and east_var is not None and d_w == east_var and \
                        reaching(east_var, g_w.stmt) is g_e.stmt
                else:
                    ok = d_e == dv and d_w == dv and reaching(dv, g_e.stmt) is None and reaching(dv, g_w.stmt) is None
                rk = [s for s in body if isinstance(s, ast.Assign) and "'west'" in ast.unparse(s.value)]
                kv = lp[0].target.elts[0].id
                ok = ok and len(rk) == 1 and ast.unparse(rk[0].value) == f"'west' + {kv}.rsplit('east', maxsplit=1)[-1]" and \
                    ast.unparse(rk[0].targets[0]) == kv and ast.unparse(g_e.value.args[0]) == kv and ast.unparse(g_w.value.args[0]) == kv and \
                    rk[0].lineno > g_e.lineno and rk[0].lineno < g_w.lineno
            ctx.check('R3.defaulting', f'{site(ua)} west default', ok, key(ua, 'west-default'),
                      f'{cname}: ' + ('a missing west value does not default to the EAST VALUE of the same row' if cname == 'Link' else
                                      'a missing west value does not default to the table default (independently of east)'), det)
    ctx.need('R3.defaulting', 6)


def r4_units(ctx):
    repo = ctx.repo
    cls = repo.module(SS).classes.get('Request_element')
    if cls is None:
        raise AnchorMissing('service_sheet.Request_element')
    init = cls.methods['__init__']
    rp = init.params[1]
    st = {ast.unparse(n.targets[0]): ast.unparse(n.value) for n in walk_no_nested(init.node) if isinstance(n, ast.Assign)
          and isinstance(n.targets[0], ast.Attribute)}
    # every store, with the conditions that hold where it executes (default + override, two-armed if and conditional expression all
    # read the same way): attribute -> {condition on the cell (or '' when unconditional): value}
    from .common import holds_at
    multi = {}
    for n in walk_no_nested(init.node):
        if isinstance(n, ast.Assign) and isinstance(n.targets[0], ast.Attribute):
            conds = [c for c in holds_at(n) if rp in c and 'mode' not in c and 'spacing' not in c]
            multi.setdefault(ast.unparse(n.targets[0]), {})[' and '.join(sorted(conds))] = ast.unparse(n.value)
    want = {
        'self.spacing': {'': f'{rp}.spacing * 1000000000.0'},
        'self.power': {f'{rp}.power is None': 'None', f'{rp}.power is not None': f'db2lin({rp}.power) * 0.001'},
        'self.nb_channel': {f'{rp}.nb_channel is None': 'None', f'{rp}.nb_channel is not None': f'int({rp}.nb_channel)'},
        'self.path_bandwidth': {f'{rp}.path_bandwidth is None': '0', f'{rp}.path_bandwidth is not None': f'{rp}.path_bandwidth * 1000000000.0'},
        'self.source': {'': f"f'trx {{{rp}.source}}'"}, 'self.destination': {'': f"f'trx {{{rp}.destination}}'"},
        'self.request_id': {'': f'{rp}.request_id'}, 'self.bidir': {'': 'bidir'},
        'self.loose': {f'{rp}.is_loose': "'LOOSE'", f'not {rp}.is_loose': "'STRICT'"},
    }
    for k, v in want.items():
        ctx.check('R4.units', f'{site(init)} {k}', multi.get(k) == v, key(init, f'unit|{k}'),
                  f'{k} is built as {multi.get(k)}; expected {v} (GHz / Gbit/s x 1e9, dBm -> W, site transceiver names)')
    ctx.check('R4.units', f'{site(init)} strictness', multi.get('self.loose', {}).get(f'not {rp}.is_loose') == "'STRICT'",
              key(init, 'strict'), "a row that is not loose does not become 'STRICT'")
    nl = multi.get('self.nodes_list')
    dj = multi.get('self.disjoint_from')
    ctx.check('R4.units', f'{site(init)} route list', nl == {f'{rp}.nodes_list': f"{rp}.nodes_list.split(' | ')", f'not {rp}.nodes_list': '[]'},
              key(init, 'route-list'),
              "the route list is not the cell split on ' | '", str(nl))
    # the split cell, kept whole when the cell is not empty (filtered comprehension, or `split if cell else []`, the split possibly
    # held in a local)
    from .common import resolved
    idefs = local_defs(init.node)

    def split_of(txt):
        try:
            e = resolved(idefs, ast.parse(txt, mode='eval').body)
        except SyntaxError:
            return False
        return f"{rp}.disjoint_from.split(' | ')" in ast.unparse(e)
    dj_ok = dj is not None and ((len(dj) == 1 and split_of(dj.get('', 'None'))) or
                                (set(dj) == {f'{rp}.disjoint_from', f'not {rp}.disjoint_from'} and split_of(dj[f'{rp}.disjoint_from']) and
                                 dj[f'not {rp}.disjoint_from'] == '[]'))
    ctx.check('R4.units', f'{site(init)} disjoint from', dj_ok,
              key(init, 'disjoint'), "the 'disjoint from' cell is not split on ' | '", str(dj))
    ps = cls.getters.get('pathsync')
    txt = ast.unparse(ps.node) if ps else ''
    ok = 'if self.disjoint_from:' in txt and "'request-id-number': [self.request_id] + list(self.disjoint_from)" in txt and \
        "'synchronization-id': self.request_id" in txt and 'return None' in txt
    ctx.check('R4.units', f'{site(ps) if ps else site(init)} synchronisation vector', ok, key(init, 'svec'),
              "a request with a 'disjoint from' entry does not yield exactly one synchronisation vector (itself + the named requests)")
    pr = cls.getters.get('pathrequest')
    txt = ast.unparse(pr.node) if pr else ''
    pairs = {"'source': self.source", "'destination': self.destination", "'spacing': self.spacing", "'max-nb-of-channel': self.nb_channel",
             "'output-power': self.power", "'trx_type': self.trx_type", "'trx_mode': self.mode", "'bidirectional': self.bidir",
             "'request-id': self.request_id", "'hop-type': f'{self.loose}'"}
    miss = sorted(p for p in pairs if p not in txt)
    from ..pattern import find as _find
    hops = [b for n, b in _find("[E_d for V_n in self.nodes_list]", pr.node)] if pr else []
    if not (len(hops) == 1 and f"'node-id': f'{{{hops[0]['V_n']}}}'" in ast.unparse(hops[0]['E_d']) and
            f"'index': self.nodes_list.index({hops[0]['V_n']})" in ast.unparse(hops[0]['E_d'])):
        miss.append('one include hop per entry of nodes_list (node-id, index)')
    ctx.check('R4.units', f'{site(pr) if pr else site(init)} request fields', not miss and "['path_bandwidth'] = self.path_bandwidth" in txt,
              key(init, 'request-fields'), f'the request document does not carry {miss}')
    ctx.need('R4.units', 14)


def r5_errors(ctx):
    repo = ctx.repo
    for fname in ('sanity_check', 'parse_excel'):
        f = repo.func(CV, fname)
        g = CFG(f.node)
        defs = local_defs(f.node)
        lists = [nm for nm, d in defs.items() if any(isinstance(v, ast.List) and not v.elts for _, v in d) and
                 any(isinstance(c.func, ast.Attribute) and c.func.attr in ('append', 'extend') and isinstance(c.func.value, ast.Name)
                     and c.func.value.id == nm for c in walk_no_nested(f.node) if isinstance(c, ast.Call))]
        errs = [nm for nm in lists if any(w in nm for w in ('bad', 'err', 'dup', 'wrong', 'missing', 'invalid', 'link', 'eqpt', 'city', 'node'))]
        raises = [n for n in walk_no_nested(f.node) if isinstance(n, ast.Raise)]
        for nm in sorted(lists):
            # a test on the list (if nm:) must lead to a raise NetworkTopologyError, or the list is used to build a message that is raised
            guarded = [n for n in walk_no_nested(f.node) if isinstance(n, ast.If) and nm in names_in(n.test) and
                       any(isinstance(x, ast.Raise) and 'NetworkTopologyError' in ast.unparse(x) for s in n.body for x in ast.walk(s))]
            collected = [n for n in walk_no_nested(f.node) if isinstance(n, ast.If) and nm in names_in(n.test) and
                         any(isinstance(x, ast.Call) and getattr(x.func, 'attr', '') in ('append', 'extend') for s in n.body for x in ast.walk(s))]
            used_in_msg = any(nm in names_in(r) for r in raises) or any(
                nm in names_in(s.value) for s in walk_no_nested(f.node) if isinstance(s, ast.Assign) and 'msg' in ast.unparse(s.targets[0]) or
                isinstance(s, ast.AugAssign) and 'msg' in ast.unparse(s.target))
            if not (guarded or collected or used_in_msg):
                # plain working lists (not error collections) are ignored when never tested
                tested = any(isinstance(n, ast.If) and nm in names_in(n.test) for n in walk_no_nested(f.node))
                if not tested:
                    continue
            ctx.check('R5.errors', f'{site(f)} {nm}', bool(guarded or collected or used_in_msg), key(f, f'errlist|{nm}'),
                      f'{fname}: the rows collected in {nm} never lead to a NetworkTopologyError: inconsistent rows would be converted')
        ctx.check('R5.errors', f'{site(f)} raises', any('NetworkTopologyError' in ast.unparse(r) for r in raises), key(f, 'raises'),
                  f'{fname} no longer raises NetworkTopologyError')
    pe = repo.func(CV, 'parse_excel')
    from ..pattern import bound_by, mexpr
    # the multiset of city names of the Node rows, compared in size with the rows themselves
    node_rows = [stmt_of(pe, c).targets[0].id for c in calls_to(pe, {'Node'}) if enclosing(c, ast.ListComp) is not None and
                 isinstance(stmt_of(pe, c), ast.Assign) and isinstance(stmt_of(pe, c).targets[0], ast.Name)]
    ok = False
    if len(node_rows) == 1:
        nr = node_rows[0]
        cnt = [nm for nm, _, _ in bound_by(pe.node, f'Counter((V_n.city for V_n in {nr} if V_n.city))')] + \
            [nm for nm, _, _ in bound_by(pe.node, f'Counter((V_n.city for V_n in {nr}))')]
        # a raise reached exactly when the two sizes differ (guard clause or nesting: read off the structure)
        dup = [n for n in walk_no_nested(pe.node) if isinstance(n, ast.Raise) and cnt and
               set(holds_at(n)) & {f'len({cnt[0]}) != len({nr})', f'len({nr}) != len({cnt[0]})'}]
        ok = len(cnt) == 1 and len(dup) == 1
    ctx.check('R5.errors', f'{site(pe)} duplicate cities', ok, key(pe, 'dup-city'), 'duplicate city names are not rejected')
    ctx.need('R5.errors', 6)


def r6_rows(ctx):
    repo = ctx.repo
    for mod, fname in ((SS, 'parse_service_sheet'), (CV, 'parse_sheet')):
        f = repo.func(mod, fname)
        lp = [n for n in walk_no_nested(f.node) if isinstance(n, ast.For)]
        ys = [n for n in ast.walk(f.node) if isinstance(n, (ast.Yield, ast.YieldFrom))]
        ok = bool(lp) and bool(ys)
        det = ''
        if ok:
            row_loop = enclosing(ys[0], ast.For) or lp[-1]
            brk = [n for n in ast.walk(row_loop) if isinstance(n, (ast.Break, ast.Return))]
            guard = enclosing(ys[0], ast.If)
            det = ast.unparse(guard.test) if guard is not None else 'unguarded'
            ok = not brk and guard is not None and 'is_type_cell_empty' in det and det.startswith('not ')
        ctx.check('R6.rows', site(f), ok, key(f, 'rows'),
                  f'{fname}: an empty row ends the sheet (or rows are yielded unguarded): services / links after a blank line would be '
                  'silently dropped', det)
    ctx.need('R6.rows', 2)


def r7_node_types(ctx):
    """R7: the node-type gate and its consumers agree: parse_excel maps every type that is not EXACTLY one of the known upper-case
    types to the default, and every later comparison of node_type (exact, or case-folded) uses one of those types - so an
    exact comparison (sanity_check) and a case-folded one (export) classify every accepted row the same way"""
    from ..pattern import find
    repo = ctx.repo
    pe = repo.func(CV, 'parse_excel')
    gates = []
    for n in walk_no_nested(pe.node):
        if isinstance(n, ast.If) and isinstance(n.test, ast.Compare) and len(n.test.ops) == 1 and isinstance(n.test.ops[0], ast.NotIn) and \
                'node_type' in ast.unparse(n.test.left):
            gates.append(n)
    ok = len(gates) == 1
    allowed = set()
    if ok:
        g = gates[0]
        raw = isinstance(g.test.left, ast.Attribute) and g.test.left.attr == 'node_type'
        st = g.test.comparators[0]
        lit = st if isinstance(st, (ast.Set, ast.List, ast.Tuple)) else next(
            (v for _, v in local_defs(pe.node).get(getattr(st, 'id', ''), []) if isinstance(v, (ast.Set, ast.List, ast.Tuple))), None)
        allowed = {e.value for e in lit.elts if isinstance(e, ast.Constant)} if lit is not None else set()
        dflt = [a for a in g.body if isinstance(a, ast.Assign) and isinstance(a.targets[0], ast.Attribute) and a.targets[0].attr == 'node_type'
                and isinstance(a.value, ast.Constant)]
        ok = raw and bool(allowed) and len(dflt) == 1 and dflt[0].value.value in allowed and all(x == x.upper() for x in allowed)
    ctx.check('R7.node-types', f'{site(pe)} gate', ok, key(pe, 'gate'),
              'parse_excel does not replace every node type that is not exactly one of the known upper-case types by the default: a '
              'type in another spelling would pass the gate and be classified differently by exact and case-folded comparisons downstream',
              ast.unparse(gates[0].test) if gates else '')
    n = 0
    for f in repo.all_funcs():
        if f.module.name != CV:
            continue
        for c in ast.walk(f.node):
            if not (isinstance(c, ast.Compare) and len(c.ops) == 1 and isinstance(c.ops[0], (ast.Eq, ast.NotEq, ast.In, ast.NotIn))):
                continue
            left = c.left
            folded = isinstance(left, ast.Call) and isinstance(left.func, ast.Attribute) and left.func.attr in ('lower', 'upper') and \
                isinstance(left.func.value, ast.Attribute) and left.func.value.attr == 'node_type'
            exact = isinstance(left, ast.Attribute) and left.attr == 'node_type'
            if not (folded or exact) or (f is pe and gates and c is gates[0].test):
                continue
            lits = [x.value for x in ast.walk(c.comparators[0]) if isinstance(x, ast.Constant) and isinstance(x.value, str)]
            if not lits:
                continue
            n += 1
            if exact:
                good = all(x in allowed for x in lits)
            else:
                good = all(x.upper() in allowed for x in lits)
            ctx.check('R7.node-types', f'{site(f, c)} {ast.unparse(c)[:50]}', good and bool(allowed), f'{f.qual}|node-type|{ast.unparse(c)[:50]}',
                      f'node_type is compared with {lits}, which the gate of parse_excel does not produce ({sorted(allowed)})')
    ctx.need('R7.node-types', 15)


def r8_cable_names(ctx):
    """R8: element names that embed a fibre direction and a cable id pair them like the fibre builders do: the fibre travelling
    from_city -> to_city carries the EAST cable id, the one travelling to_city -> from_city the WEST one (route lists of the
    service sheet are matched to elements through these names)"""
    repo = ctx.repo
    n = 0
    for f in repo.all_funcs():
        if f.module.name != CV:
            continue
        for js in [x for x in ast.walk(f.node) if isinstance(x, ast.JoinedStr)]:
            parts = js.values
            # ... ({A} -> {B})-{cable}
            for i in range(len(parts) - 4):
                a, arrow, b, close, cab = parts[i:i + 5]
                if not (isinstance(a, ast.FormattedValue) and isinstance(b, ast.FormattedValue) and isinstance(cab, ast.FormattedValue) and
                        isinstance(arrow, ast.Constant) and '\u2192' in str(arrow.value) and isinstance(close, ast.Constant) and
                        str(close.value).startswith(')-')):
                    continue
                av, bv, cv = (x.value for x in (a, b, cab))
                if not all(isinstance(x, ast.Attribute) for x in (av, bv, cv)) or not cv.attr.endswith('_cable'):
                    continue
                n += 1
                want = 'east_cable' if (av.attr, bv.attr) == ('from_city', 'to_city') else ('west_cable' if (av.attr, bv.attr) == ('to_city', 'from_city') else None)
                ctx.check('R8.cable-names', f'{site(f, js)} ({av.attr} -> {bv.attr})', want is not None and cv.attr == want,
                          f'{f.qual}|cable|{av.attr}>{bv.attr}|{ast.unparse(js)[:40]}',
                          f'a name pairs the direction {av.attr} -> {bv.attr} with {cv.attr}; the fibre of that direction carries {want}: '
                          'with different east / west cable ids the element would not be found by name (a route hop silently dropped)',
                          ast.unparse(js)[:140])
    ctx.need('R8.cable-names', 8)



def r9_ila_degree(ctx):
    """R9: an ILA site has exactly two links: sanity_check corrects (to a ROADM) every ILA whose degree is NOT 2 - degree 1 spurs
    included - before the converter wires its amplifiers"""
    repo = ctx.repo
    f = repo.func(CV, 'sanity_check')
    hits = []
    for n in walk_no_nested(f.node):
        if isinstance(n, ast.If):
            conj = n.test.values if isinstance(n.test, ast.BoolOp) and isinstance(n.test.op, ast.And) else [n.test]
            ila = [c for c in conj if isinstance(c, ast.Compare) and "'ila'" in ast.unparse(c).lower() and 'node_type' in ast.unparse(c)]
            deg = [c for c in conj if isinstance(c, ast.Compare) and len(c.ops) == 1 and any(
                isinstance(x, ast.Call) and getattr(x.func, 'id', '') == 'len' for x in (c.left, c.comparators[0]))]
            corrects = any(isinstance(x, ast.Assign) and ast.unparse(x.targets[0]).endswith('.node_type') for st in n.body for x in ast.walk(st))
            if ila and deg and corrects:
                hits.append((n, deg[0]))
    ok = len(hits) == 1
    if ok:
        n, d = hits[0]
        num = d.comparators[0] if isinstance(d.left, ast.Call) else d.left
        ok = isinstance(d.ops[0], ast.NotEq) and isinstance(num, ast.Constant) and num.value == 2 and \
            any(isinstance(x, ast.Assign) and ast.unparse(x.targets[0]).endswith('.node_type') for st in n.body for x in ast.walk(st))
    ctx.check('R9.ila-degree', site(f, hits[0][0]) if hits else site(f), ok, key(f, 'ila-degree'),
              'sanity_check does not turn every ILA whose number of links differs from 2 into a ROADM: a degree-1 (or degree-3) ILA '
              'reaches the converter, which wires exactly two directions', ast.unparse(hits[0][1]) if hits else '')
    ctx.need('R9.ila-degree', 1)


def r10_route_index(ctx):
    """R10: while a COPY of a route list is enumerated, the live list is edited through the position of the value in the live list,
    never through the enumeration index of the copy (earlier removals shift the live list) - service-sheet twin of C11-R4"""
    repo = ctx.repo
    f = repo.func(SS, 'correct_xls_route_list')
    n = 0
    for lp in [x for x in walk_no_nested(f.node) if isinstance(x, ast.For) and isinstance(x.iter, ast.Call) and
               getattr(x.iter.func, 'id', '') == 'enumerate' and isinstance(x.target, ast.Tuple) and 'nodes_list' in ast.unparse(x.iter)]:
        idx = lp.target.elts[0].id if isinstance(lp.target.elts[0], ast.Name) else None
        snap = ast.unparse(lp.iter.args[0])
        root = snap.split('.')[0]
        n += 1
        bad = []
        for x in ast.walk(lp):
            if isinstance(x, ast.Subscript) and isinstance(x.ctx, (ast.Store, ast.Del)) and isinstance(x.slice, ast.Name) and x.slice.id == idx and \
                    not ast.unparse(x.value).startswith(root + '.'):
                bad.append(x)
            if isinstance(x, ast.Call) and isinstance(x.func, ast.Attribute) and x.func.attr in ('pop', 'insert') and x.args and \
                    isinstance(x.args[0], ast.Name) and x.args[0].id == idx and not ast.unparse(x.func.value).startswith(root + '.'):
                bad.append(x)
        ctx.check('R10.route-index', f'{site(f, lp)} enumerating {snap}', not bad, key(f, 'snapshot-index'),
                  f'the enumeration index {idx} of the snapshot {snap} is used to edit the live route list, which has already lost the '
                  'entries skipped earlier in the loop: another hop is overwritten or removed', '; '.join(ast.unparse(b)[:60] for b in bad))
    ctx.need('R10.route-index', 1)


def r11_next_node(ctx):
    """R11: the site that follows an amplifier is found by walking over EVERY passive line element (fibres of any kind and fused
    nodes) and stopping at the first other element: truth table of the isinstance test of the walk in corresp_next_node"""
    from ..typedomain import truth_table
    repo = ctx.repo
    f = repo.func(CV, 'corresp_next_node')
    el = repo.module('gnpy.core.elements')
    dom = [el.classes[n] for n in ('Fiber', 'RamanFiber', 'Fused', 'Edfa', 'Multiband_amplifier', 'Roadm', 'Transceiver')]
    whiles = [n for n in walk_no_nested(f.node) if isinstance(n, ast.While) and 'isinstance' in ast.unparse(n.test)]
    ok = len(whiles) == 1
    det = ''
    if ok:
        w = whiles[0]
        var = next((x.id for x in ast.walk(w.test) if isinstance(x, ast.Name) and x.id not in ('isinstance', 'Fiber', 'Fused', 'RamanFiber')), None)
        tt = truth_table(repo, f.module, w.test, [var], dom)
        wrong = sorted(k[0] for k, v in tt.items() if v != (k[0] in ('Fiber', 'RamanFiber', 'Fused')))
        adv = [s for s in w.body if isinstance(s, ast.Assign) and ast.unparse(s.targets[0]) == var and 'successors' in ast.unparse(s.value)]
        ok = not wrong and len(adv) == 1
        det = f'wrong for {wrong}'
    ctx.check('R11.next-node', site(f), ok, key(f, 'walk'),
              'the search for the site that follows an amplifier does not skip exactly the passive line elements (fibres and fused nodes): '
              'a route hop behind a fused site would not be matched and silently drop out of the request', det)
    ctx.need('R11.next-node', 1)


def r12_checks_and_trims(ctx):
    """R12: (a) a consistency test of sanity_check is raised as soon as its list is complete: the `if <list>: raise` follows the
    statement (or the loop) that fills the list, before any later loop can index the tables with the unknown names (which would
    escape as KeyError); (b) both ends of a service route list are trimmed independently"""
    from .common import end_trims_rule
    repo = ctx.repo
    f = repo.func(CV, 'sanity_check')
    body = [s for s in f.node.body if not (isinstance(s, ast.Expr) and isinstance(s.value, ast.Constant))]
    n = 0
    for i, st in enumerate(body):
        if not (isinstance(st, ast.If) and isinstance(st.test, ast.Name) and any(isinstance(x, ast.Raise) for x in ast.walk(st))):
            continue
        lst = st.test.id
        n += 1
        # walk back over the preceding statements: other guards are skipped; the first other statement must define / fill the list
        j = i - 1
        while j >= 0 and isinstance(body[j], ast.If) and isinstance(body[j].test, ast.Name) and any(isinstance(x, ast.Raise) for x in ast.walk(body[j])):
            j -= 1
        prev = body[j] if j >= 0 else None
        fills = prev is not None and (
            (isinstance(prev, ast.Assign) and lst in {x.id for x in ast.walk(prev.targets[0]) if isinstance(x, ast.Name)}) or
            (isinstance(prev, (ast.For, ast.While)) and any(isinstance(c, ast.Call) and isinstance(c.func, ast.Attribute) and
                                                             c.func.attr in ('append', 'extend') and ast.unparse(c.func.value) == lst
                                                             for c in ast.walk(prev))))
        ctx.check('R12.check-order', f'{site(f, st)} if {lst}', bool(fills), key(f, f'check-order|{lst}'),
                  f'the test of {lst} does not directly follow the code that fills it: a later loop runs on the inconsistent rows first and '
                  'fails with another exception (KeyError) instead of the NetworkTopologyError naming the rows')
    ctx.need('R12.check-order', 4)
    end_trims_rule(ctx, 'R12.end-trims', [repo.func(SS, 'correct_xls_route_list')],
                   'a strict route naming both its own transceivers keeps one of them and is rejected')
    ctx.need('R12.end-trims', 1)



def r13_corrected_routes(ctx):
    """R13: the service file is built from the CORRECTED requests: read_service_sheet turns the rows into path requests and
    synchronisation vectors only after correct_xls_route_list has translated / pruned their route lists, and from its result"""
    repo = ctx.repo
    f = repo.func(SS, 'read_service_sheet')
    cs = calls_to(f, {'correct_xls_route_list'})
    ok = len(cs) == 1 and isinstance(stmt_of(f, cs[0]), ast.Assign) and isinstance(stmt_of(f, cs[0]).targets[0], ast.Name)
    det = ''
    if ok:
        st = stmt_of(f, cs[0])
        t = st.targets[0].id
        users = [c for c in walk_no_nested(f.node) if isinstance(c, (ast.ListComp, ast.GeneratorExp)) and '.json[' in ast.unparse(c.elt)]
        det = '; '.join(f'{ast.unparse(u)[:50]} @{u.lineno}' for u in users)
        # every later store into t would replace the corrected list: none allowed
        restores = [n for n in walk_no_nested(f.node) if isinstance(n, ast.Assign) and isinstance(n.targets[0], ast.Name) and
                    n.targets[0].id == t and n is not st and n.lineno > st.lineno]
        ok = len(users) >= 2 and all(isinstance(u.generators[0].iter, ast.Name) and u.generators[0].iter.id == t and
                                     stmt_of(f, u).lineno > st.lineno for u in users) and not restores
    ctx.check('R13.corrected-routes', site(f), ok, key(f, 'corrected'),
              'the path requests / synchronisation vectors of the service file are not built from the result of correct_xls_route_list '
              '(after it ran): route lists given with site names, or starting / ending with the end transceivers, would reach the file '
              'untranslated', det)
    ctx.need('R13.corrected-routes', 1)



def r14_link_identity(ctx):
    """R14: a link of the Links sheet is identified by its two end cities, in either orientation, and by nothing else: Link.__eq__
    compares from_city / to_city straight and crossed - this is what makes a link listed twice (the duplicate the conversion must
    reject, parallel links being unsupported) equal to itself"""
    repo = ctx.repo
    link = repo.module(CV).classes.get('Link')
    eq = link.methods.get('__eq__') if link is not None else None
    if eq is None:
        raise AnchorMissing('convert.Link.__eq__')
    o = eq.params[1]
    pairs = set()
    other = []
    for c in [x for x in ast.walk(eq.node) if isinstance(x, ast.Compare) and len(x.ops) == 1]:
        le, ri = c.left, c.comparators[0]
        if isinstance(le, ast.Attribute) and isinstance(ri, ast.Attribute) and isinstance(c.ops[0], ast.Eq) and \
                {ast.unparse(le.value), ast.unparse(ri.value)} == {'self', o}:
            pairs.add(frozenset((le.attr, ri.attr)) if le.attr != ri.attr else (le.attr,))
            if {le.attr, ri.attr} - {'from_city', 'to_city'}:
                other.append(ast.unparse(c))
        else:
            other.append(ast.unparse(c))
    want = {('from_city',), ('to_city',), frozenset(('from_city', 'to_city'))}
    ctx.check('R14.link-identity', site(eq), pairs == want and not other, key(eq, 'identity'),
              'two link rows are not equal exactly when they join the same two cities (in either orientation): a link listed twice would '
              'no longer be rejected as a duplicate and the second fibre pair be left unwired', f'{sorted(map(str, pairs))} {other}')
    ctx.need('R14.link-identity', 1)

RULES = [('R1.headers', r1_headers), ('R2.mirrors', r2_mirrors), ('R3.defaulting', r3_defaulting), ('R4.units', r4_units),
         ('R5.errors', r5_errors), ('R6.rows', r6_rows), ('R7.node-types', r7_node_types), ('R8.cable-names', r8_cable_names), ('R9.ila-degree', r9_ila_degree), ('R10.route-index', r10_route_index), ('R11.next-node', r11_next_node), ('R12.checks-and-trims', r12_checks_and_trims), ('R13.corrected-routes', r13_corrected_routes), ('R14.link-identity', r14_link_identity)]
