"""Statement-level control-flow graph with dominators, must-pass-through and a small typestate runner (DESIGN 2.3)."""
import ast
from collections import deque

from .model import walk_no_nested


class Node:
    __slots__ = ('id', 'stmt', 'kind', 'expr')

    def __init__(self, id, stmt, kind, expr=None):
        self.id, self.stmt, self.kind, self.expr = id, stmt, kind, expr

    @property
    def lineno(self):
        return getattr(self.stmt, 'lineno', 0)

    def code(self):
        """the part of the statement this node evaluates (test of an if/while, iterable of a for, whole simple stmt)"""
        return self.expr if self.expr is not None else self.stmt

    def __repr__(self):
        return f'<{self.kind}#{self.id} L{self.lineno}>'


class CFG:
    def __init__(self, fnode, exc_edges=False):
        self.fnode = fnode
        self.exc_edges = exc_edges
        self.nodes = []
        self.succ, self.pred, self.label = {}, {}, {}
        self.entry = self._new(None, 'entry')
        self.exit = self._new(None, 'exit')
        self.raise_exit = self._new(None, 'raise')
        self.stmt_node = {}      # id(ast stmt) -> Node (the normal-flow copy when a finally body is duplicated)
        self.stmt_nodes = {}     # id(ast stmt) -> [all Node copies]
        ends = self._block(fnode.body, [(self.entry, None)], ctx={'loop': None, 'handlers': []})
        for e, lab in ends:
            self._edge(e, self.exit, lab)
        self._dom = None
        self._pdom = None

    # ------------------------------------------------------------------ construction
    def _new(self, stmt, kind, expr=None):
        n = Node(len(self.nodes), stmt, kind, expr)
        self.nodes.append(n)
        self.succ[n.id], self.pred[n.id] = [], []
        if stmt is not None and kind in ('stmt', 'test', 'iter', 'with', 'return', 'raise_stmt'):
            self.stmt_node[id(stmt)] = n          # last created = normal-flow copy
            self.stmt_nodes.setdefault(id(stmt), []).append(n)
        return n

    def _edge(self, a, b, lab=None):
        if b.id not in self.succ[a.id]:
            self.succ[a.id].append(b.id)
            self.pred[b.id].append(a.id)
        self.label[(a.id, b.id)] = lab

    def _link(self, preds, n):
        for p, lab in preds:
            self._edge(p, n, lab)

    def _exc_target(self, ctx):
        return ctx['handlers'][-1] if ctx['handlers'] else [self.raise_exit]

    def _maybe_exc(self, n, code, ctx):
        if code is None:
            return
        has_call = any(isinstance(x, ast.Call) for x in ([code] if isinstance(code, ast.Call) else []) +
                       list(walk_no_nested(code)))
        if has_call and (self.exc_edges or ctx['handlers']):
            for t in self._exc_target(ctx):
                self._edge(n, t, 'exc')

    def _block(self, stmts, preds, ctx):
        for s in stmts:
            preds = self._stmt(s, preds, ctx)
        return preds

    def _stmt(self, s, preds, ctx):
        if isinstance(s, ast.If):
            n = self._new(s, 'test', s.test)
            self._link(preds, n)
            self._maybe_exc(n, s.test, ctx)
            a = self._block(s.body, [(n, True)], ctx)
            b = self._block(s.orelse, [(n, False)], ctx) if s.orelse else [(n, False)]
            return a + b
        if isinstance(s, (ast.While, ast.For)):
            n = self._new(s, 'test' if isinstance(s, ast.While) else 'iter', s.test if isinstance(s, ast.While) else s.iter)
            self._link(preds, n)
            self._maybe_exc(n, n.expr, ctx)
            lctx = dict(ctx, loop={'head': n, 'breaks': []})
            body_end = self._block(s.body, [(n, True)], lctx)
            for e, lab in body_end:
                self._edge(e, n, lab)
            out = [(n, False)]
            if s.orelse:
                out = self._block(s.orelse, out, ctx)
            return out + lctx['loop']['breaks']
        if isinstance(s, ast.With):
            n = self._new(s, 'with', ast.Tuple(elts=[it.context_expr for it in s.items], ctx=ast.Load()))
            self._link(preds, n)
            for it in s.items:
                self._maybe_exc(n, it.context_expr, ctx)
            return self._block(s.body, [(n, None)], ctx)
        if isinstance(s, ast.Try):
            return self._try(s, preds, ctx)
        if isinstance(s, ast.Return):
            n = self._new(s, 'return')
            self._link(preds, n)
            self._maybe_exc(n, s.value, ctx)
            fin = ctx.get('finally')
            if fin:
                # run the pending finally bodies (innermost first) before leaving
                cur = [(n, None)]
                for fb, fctx in reversed(fin):
                    cur = self._block(fb, cur, fctx)
                for e, lab in cur:
                    self._edge(e, self.exit, lab)
            else:
                self._edge(n, self.exit)
            return []
        if isinstance(s, ast.Raise):
            n = self._new(s, 'raise_stmt')
            self._link(preds, n)
            for t in self._exc_target(ctx):
                self._edge(n, t, 'exc')
            return []
        if isinstance(s, ast.Break):
            n = self._new(s, 'stmt')
            self._link(preds, n)
            if ctx['loop']:
                ctx['loop']['breaks'].append((n, None))
            return []
        if isinstance(s, ast.Continue):
            n = self._new(s, 'stmt')
            self._link(preds, n)
            if ctx['loop']:
                self._edge(n, ctx['loop']['head'])
            return []
        if isinstance(s, (ast.FunctionDef, ast.AsyncFunctionDef, ast.ClassDef)):
            n = self._new(s, 'stmt')
            self._link(preds, n)
            return [(n, None)]
        n = self._new(s, 'stmt')
        self._link(preds, n)
        if isinstance(s, ast.Assert) and isinstance(s.test, ast.Constant) and not s.test.value:
            for t in self._exc_target(ctx):
                self._edge(n, t, 'exc')
            return []
        self._maybe_exc(n, s, ctx)
        return [(n, None)]

    def _try(self, s, preds, ctx):
        # handler entry nodes
        hentries = []
        for h in s.handlers:
            hn = self._new(h, 'handler')
            hentries.append(hn)
        fin_exc_entry = None
        outer_exc = self._exc_target(ctx)
        if s.finalbody:
            fin_exc_entry = self._new(s, 'finally_exc')
            ends = self._block(s.finalbody, [(fin_exc_entry, None)], ctx)
            for e, lab in ends:
                for t in outer_exc:
                    self._edge(e, t, 'exc')
        body_targets = hentries + ([fin_exc_entry] if fin_exc_entry is not None else
                                   ([] if any(_catch_all(h) for h in s.handlers) else outer_exc))
        if not hentries and fin_exc_entry is None:
            body_targets = outer_exc
        bctx = dict(ctx, handlers=ctx['handlers'] + [body_targets])
        if s.finalbody:
            bctx['finally'] = (ctx.get('finally') or []) + [(s.finalbody, ctx)]
        marker = self._new(s, 'try')
        self._link(preds, marker)
        body_end = self._block(s.body, [(marker, None)], bctx)
        if s.orelse:
            body_end = self._block(s.orelse, body_end, dict(bctx, handlers=ctx['handlers'] +
                                                            [[fin_exc_entry] if fin_exc_entry is not None else outer_exc]))
        hctx = dict(ctx, handlers=ctx['handlers'] + [[fin_exc_entry]] if fin_exc_entry is not None else ctx['handlers'])
        if s.finalbody:
            hctx['finally'] = (ctx.get('finally') or []) + [(s.finalbody, ctx)]
        hends = []
        for h, hn in zip(s.handlers, hentries):
            hends += self._block(h.body, [(hn, None)], hctx)
        ends = body_end + hends
        if s.finalbody:
            ends = self._block(s.finalbody, ends, ctx)
        return ends

    # ------------------------------------------------------------------ queries
    def node_of(self, stmt):
        return self.stmt_node.get(id(stmt))

    def nodes_of(self, stmt):
        return self.stmt_nodes.get(id(stmt), [])

    def reachable_from(self, nid, avoid=None):
        seen = {nid}
        q = deque([nid])
        while q:
            x = q.popleft()
            for y in self.succ[x]:
                if y not in seen and not (avoid and avoid(self.nodes[y])):
                    seen.add(y)
                    q.append(y)
        return seen

    def path_avoiding(self, src, dst, avoid, skip_labels=()):
        """a path (list of Nodes) from src to dst none of whose *intermediate* nodes satisfies avoid, else None"""
        prev = {src.id: None}
        q = deque([src.id])
        while q:
            x = q.popleft()
            if x == dst.id and x != src.id:
                break
            for y in self.succ[x]:
                if self.label.get((x, y)) in skip_labels:
                    continue
                if y in prev:
                    continue
                if y != dst.id and avoid(self.nodes[y]):
                    continue
                prev[y] = x
                q.append(y)
        if dst.id not in prev:
            return None
        out, x = [], dst.id
        while x is not None:
            out.append(self.nodes[x])
            x = prev[x]
        return out[::-1]

    def must_pass(self, src, dst, pred, skip_labels=('exc',)):
        """None if every path src->dst crosses a node satisfying pred, else a counterexample path"""
        return self.path_avoiding(src, dst, pred, skip_labels)

    def dominators(self):
        if self._dom is None:
            self._dom = _dominators(self.entry.id, self.succ, self.pred, len(self.nodes))
        return self._dom

    def dominates(self, a, b):
        """every path entry->b passes a"""
        return a.id in self.dominators().get(b.id, set())

    def typestate(self, start_state, step, bad, skip_labels=()):
        """advance a finite automaton along all paths from entry. step(state, node) -> state.
        bad(state, node) -> message|None is evaluated when a node is entered.  Returns list of (message, path)."""
        seen = {(self.entry.id, start_state): None}
        q = deque([(self.entry.id, start_state)])
        hits = []
        reported = set()
        while q:
            nid, stt = q.popleft()
            node = self.nodes[nid]
            msg = bad(stt, node)
            if msg and (msg, nid) not in reported:
                reported.add((msg, nid))
                path, k = [], (nid, stt)
                while k is not None:
                    path.append(self.nodes[k[0]])
                    k = seen[k]
                hits.append((msg, path[::-1]))
                continue
            nst = step(stt, node)
            for y in self.succ[nid]:
                if self.label.get((nid, y)) in skip_labels:
                    continue
                k = (y, nst)
                if k not in seen:
                    seen[k] = (nid, stt)
                    q.append(k)
        return hits


def _catch_all(h):
    return h.type is None or (isinstance(h.type, ast.Name) and h.type.id in ('Exception', 'BaseException'))


def _dominators(entry, succ, pred, n):
    reach = set()
    stack = [entry]
    while stack:
        x = stack.pop()
        if x in reach:
            continue
        reach.add(x)
        stack.extend(succ[x])
    dom = {x: set(reach) for x in reach}
    dom[entry] = {entry}
    changed = True
    order = sorted(reach)
    while changed:
        changed = False
        for x in order:
            if x == entry:
                continue
            ps = [p for p in pred[x] if p in reach]
            new = set.intersection(*(dom[p] for p in ps)) if ps else set()
            new = new | {x}
            if new != dom[x]:
                dom[x] = new
                changed = True
    return dom


def fmt_path(func, path, limit=12):
    pts = [f'{func.file}:{n.lineno}' for n in path if n.lineno]
    out = []
    for p in pts:
        if not out or out[-1] != p:
            out.append(p)
    if len(out) > limit:
        out = out[:limit // 2] + ['...'] + out[-limit // 2:]
    return ' -> '.join(out)


def calls_named(node_code, names):
    """Call nodes inside a CFG node's code whose callee simple name is in names"""
    if node_code is None:
        return []
    out = []
    items = [node_code] + list(walk_no_nested(node_code))
    for x in items:
        if isinstance(x, ast.Call):
            f = x.func
            nm = f.id if isinstance(f, ast.Name) else (f.attr if isinstance(f, ast.Attribute) else None)
            if nm in names:
                out.append(x)
    return out
