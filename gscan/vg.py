"""Gated value graph evaluator (DESIGN 2.5 / Appendix B).

Symbolically evaluates a function body (straight-line code, if/else with gamma merges, early returns, raises)
into Rat normal forms over entry-state atoms.  Loops are not interpreted: everything they write is havoced to
an opaque atom that remembers what it was computed from (so derives-from queries stay sound).
Nothing is executed.
"""
import ast
from .model import clone as _clone
from fractions import Fraction

from .poly import (Rat, C, fn, mk_atom, REG, gamma, lem_abs, lem_min, lem_max, lem_exp, lem_log, lem_sqrt, lem_pow,
                   vkey, subst, lem_odd, lem_cut)
from .model import Func, Cls, CannotAnalyse, num_fraction, const_fold


class Const:
    """non-numeric constant value (str / None / bool / ...)"""
    __slots__ = ('v',)

    def __init__(self, v):
        self.v = v

    def vkey(self):
        return f'const:{self.v!r}'

    def __repr__(self):
        return self.vkey()

    def __eq__(self, o):
        return isinstance(o, Const) and o.v == self.v and type(o.v) is type(self.v)

    def __hash__(self):
        return hash(repr(self.v))


class DictV:
    __slots__ = ('d',)

    def __init__(self, d):
        self.d = d       # key (python str / vkey text) -> value

    def vkey(self):
        return '{' + ','.join(f'{k}:{vkey(v)}' for k, v in sorted(self.d.items(), key=lambda kv: str(kv[0]))) + '}'

    __repr__ = vkey


class SymList:
    """list of symbolic length (DESIGN 2.6): length is a Rat (linear in program integers); lo/hi are set when the
    list is known to be the contiguous integer run lo..hi; segs = [(element key, count)] when the list is known to
    be a concatenation of constant runs"""
    __slots__ = ('length', 'lo', 'hi', 'segs')

    def __init__(self, length, lo=None, hi=None, segs=None):
        self.length, self.lo, self.hi, self.segs = length, lo, hi, segs

    def vkey(self):
        r = f' run {self.lo.key()}..{self.hi.key()}' if self.lo is not None else ''
        return f'<list len {self.length.key()}{r}>'

    __repr__ = vkey

    def concat(self, o):
        lo = hi = None
        if self.lo is not None and o.lo is not None and (self.hi + C(1)).eq(o.lo):
            lo, hi = self.lo, o.hi
        segs = (self.segs + o.segs) if self.segs is not None and o.segs is not None else None
        return SymList(self.length + o.length, lo, hi, segs)


def loopvar(lid, name):
    """symbol for the value a variable has at the start of an arbitrary iteration of loop lid (a path, so that
    attribute stores on a loop variable are tracked)"""
    return Rat.sym(f"loopvar#{lid}('{name}')")


def as_symlist(v):
    if isinstance(v, SymList):
        return v
    if isinstance(v, list):
        return SymList(C(len(v)), segs=[(vkey(x), C(1)) for x in v])
    return None


class CallRec:
    def __init__(self, name, callee, args, kwargs, pc, node, base=None):
        self.name, self.callee, self.args, self.kwargs, self.pc, self.node, self.base = \
            name, callee, args, kwargs, pc, node, base

    def arg(self, i, kw=None):
        if i is not None and i < len(self.args):
            return self.args[i]
        if kw and kw in self.kwargs:
            return self.kwargs[kw]
        return None

    def __repr__(self):
        return f'<call {self.name}({", ".join(vkey(a) for a in self.args)}) pc={self.pc}>'


class State:
    __slots__ = ('env', 'store', 'pc')

    def __init__(self, env=None, store=None, pc=None):
        self.env, self.store, self.pc = env or {}, store or {}, pc or []

    def copy(self):
        return State(dict(self.env), dict(self.store), list(self.pc))


def path_of(v):
    """dotted path if v is exactly one sym/fld atom"""
    if isinstance(v, Rat):
        a = v.single_atom()
        if a is not None and a.kind in ('sym', 'fld'):
            return a.name
        if a is not None and a.kind == 'fn' and a.name.startswith('call:'):
            return a.key          # the object returned by an opaque call: attribute stores on it are tracked
    return None


IDENTITY_CALLS = {'array', 'asarray', 'float', 'copy', 'deepcopy', 'squeeze', 'list', 'tuple'}
NP_BIN = {'multiply': ast.Mult, 'divide': ast.Div, 'add': ast.Add, 'subtract': ast.Sub, 'power': ast.Pow}


class Evaluator:
    def __init__(self, repo, func, types=None, inline=None, max_depth=4, no_inline=(), watch=()):
        self.repo, self.func = repo, func
        self.types = dict(types or {})     # path -> Cls
        self.inline = inline               # None = default policy; else predicate(Func)->bool
        self.no_inline = set(no_inline)
        self.max_depth = max_depth
        self.calls = []
        self.outcomes = []                 # (pc, retval, store) of return points of the top frame
        self.loop_id = 0
        self.depth = 0
        self.cur = None
        self.frames = [func]
        self.watch = {id(x) for x in watch}  # statements before which the state is snapshotted (top frame)
        self.snap = {}                      # id(stmt) -> State before the statement
        self.substores = []                # (path, keytext, value, pc)
        self.raises = []                   # (pc, node)
        self.unknown = []                  # constructs evaluated as opaque (for diagnostics)
        self.loop_bodies = {}              # loop id -> symbolic one-iteration summary
        self.invariants = []               # loop invariants found by the length domain
        self.cond_info = {}                # cond key -> (op, lhs value, rhs value) for comparisons

    # ================================================================== entry points
    def run_function_with_store(self, bind, store):
        return self.run_function(bind, store)

    def run_function(self, bind=None, store=None):
        """evaluate self.func with parameters bound to symbols (or to the values in bind); store gives the
        entry-state assumption for selected locations (default: each location is its own entry atom)"""
        st = State(store=dict(store or {}))
        f = self.func
        bind = bind or {}
        for p in f.params + f.kwonly:
            st.env[p] = bind.get(p, Rat.sym(p))
        if f.node.args.vararg:
            st.env[f.node.args.vararg.arg] = bind.get(f.node.args.vararg.arg, Rat.sym(f.node.args.vararg.arg))
        if f.node.args.kwarg:
            st.env[f.node.args.kwarg.arg] = bind.get(f.node.args.kwarg.arg, Rat.sym(f.node.args.kwarg.arg))
        if f.cls is not None and f.params and f.params[0] == 'self' and 'self' not in self.types:
            self.types['self'] = f.cls
        outs = self.block(f.node.body, st)
        finals = []
        for kind, s, val in outs:
            if kind == 'return':
                finals.append((s.pc, val, s.store))
            elif kind == 'fall':
                finals.append((s.pc, Const(None), s.store))
        self.outcomes = finals
        return self

    def ret(self):
        """gamma-merged return value"""
        return merge_outcomes([(pc, v) for pc, v, _ in self.outcomes])

    def exit_field(self, path):
        """gamma-merged value of a store location at function exit (entry atom if never written)"""
        return merge_outcomes([(pc, st.get(path, Rat.of(mk_atom('fld', path)))) for pc, _, st in self.outcomes])

    def written_paths(self):
        out = set()
        for _, _, st in self.outcomes:
            out |= set(st)
        return out

    # ================================================================== statements
    def block(self, stmts, st):
        """returns list of outcomes (kind, state, value); at most one 'fall'"""
        outs = []
        cur = st
        for i, s in enumerate(stmts):
            if cur is None:
                break
            res = self.stmt(s, cur)
            cur = None
            for o in res:
                if o[0] == 'fall':
                    cur = o[1]
                else:
                    outs.append(o)
        if cur is not None:
            outs.append(('fall', cur, None))
        return outs

    def stmt(self, s, st):
        self.cur = st
        if id(s) in self.watch and self.depth == 0:
            self.snap[id(s)] = st.copy()
        if isinstance(s, ast.Expr):
            if not isinstance(s.value, ast.Constant):
                self.ev(s.value, st)
            return [('fall', st, None)]
        if isinstance(s, ast.Assign):
            v = self.ev(s.value, st)
            for t in s.targets:
                self.assign(t, v, st)
            return [('fall', st, None)]
        if isinstance(s, ast.AnnAssign):
            if s.value is not None:
                self.assign(s.target, self.ev(s.value, st), st)
            return [('fall', st, None)]
        if isinstance(s, ast.AugAssign):
            v = self.ev(ast.BinOp(left=load_of(s.target), op=s.op, right=s.value), st)
            self.assign(s.target, v, st)
            return [('fall', st, None)]
        if isinstance(s, ast.Return):
            v = self.ev(s.value, st) if s.value is not None else Const(None)
            return [('return', st, v)]
        if isinstance(s, ast.Raise):
            self.raises.append((list(st.pc), s))
            return [('raise', st, None)]
        if isinstance(s, ast.Assert):
            if isinstance(s.test, ast.Constant) and not s.test.value:
                self.raises.append((list(st.pc), s))
                return [('raise', st, None)]
            return [('fall', st, None)]
        if isinstance(s, (ast.Pass, ast.Import, ast.ImportFrom, ast.Global, ast.Nonlocal, ast.Delete,
                          ast.FunctionDef, ast.ClassDef)):
            return [('fall', st, None)]
        if isinstance(s, ast.Break):
            return [('break', st, None)]
        if isinstance(s, ast.Continue):
            return [('continue', st, None)]
        if isinstance(s, ast.If):
            return self.if_stmt(s, st)
        if isinstance(s, ast.For) and isinstance(s.iter, (ast.Tuple, ast.List)) and len(s.iter.elts) <= 6 and not s.orelse and \
                not any(isinstance(x, (ast.Break, ast.Continue, ast.Starred)) for x in ast.walk(s)):
            # a loop over a literal tuple of known length is its body repeated: exact
            cur = [('fall', st, None)]
            res = []
            for elt in s.iter.elts:
                nxt = []
                for kind, st_, x in cur:
                    if kind != 'fall':
                        res.append((kind, st_, x))
                        continue
                    self.assign(s.target, self.ev(elt, st_), st_)
                    nxt.extend(self.block(s.body, st_))
                cur = nxt
            return res + cur
        if isinstance(s, (ast.For, ast.While)):
            return self.loop(s, st)
        if isinstance(s, ast.With):
            for it in s.items:
                v = self.ev(it.context_expr, st)
                if it.optional_vars is not None:
                    self.assign(it.optional_vars, v, st)
            return self.block(s.body, st)
        if isinstance(s, ast.Try):
            outs = self.block(s.body + s.orelse, st)
            res = []
            for o in outs:
                if o[0] == 'fall' and s.finalbody:
                    res.extend(self.block(s.finalbody, o[1]))
                else:
                    res.append(o)
            return res
        raise CannotAnalyse(f'statement {type(s).__name__} at {self.func.loc(s)}')

    def if_stmt(self, s, st):
        ck = self.cond(s.test, st)
        if ck == 'const:True':
            return self.block(s.body, st)
        if ck == 'const:False':
            return self.block(s.orelse, st)
        neg = False
        if ck.startswith('not(') and ck.endswith(')'):
            ck, neg = ck[4:-1], True
        a, b = st.copy(), st.copy()
        a.pc = st.pc + [(ck, not neg)]
        b.pc = st.pc + [(ck, neg)]
        oa = self.block(s.body, a)
        ob = self.block(s.orelse, b)
        fa = [o for o in oa if o[0] == 'fall']
        fb = [o for o in ob if o[0] == 'fall']
        outs = [o for o in oa + ob if o[0] != 'fall']
        if fa and fb:
            sa, sb = fa[0][1], fb[0][1]
            if neg:
                sa, sb = sb, sa      # sa := state when ck is True
            m = State(pc=list(st.pc))
            for k in set(sa.env) | set(sb.env):
                va, vb = sa.env.get(k), sb.env.get(k)
                if va is None:
                    va = Rat.of(mk_atom('fn', 'unbound', (k,)))
                if vb is None:
                    vb = Rat.of(mk_atom('fn', 'unbound', (k,)))
                m.env[k] = merge2(ck, va, vb)
            for k in set(sa.store) | set(sb.store):
                va = sa.store.get(k, Rat.of(mk_atom('fld', k)))
                vb = sb.store.get(k, Rat.of(mk_atom('fld', k)))
                m.store[k] = merge2(ck, va, vb)
            outs.append(('fall', m, None))
        elif fa:
            outs.append(fa[0])
        elif fb:
            outs.append(fb[0])
        return outs

    def loop(self, s, st):
        """havoc every location the loop writes; the opaque value remembers what the body read"""
        self.loop_id += 1
        written_names, written_attrs = set(), []
        for n in ast.walk(s):
            if isinstance(n, (ast.Assign, ast.AugAssign, ast.AnnAssign, ast.For)):
                tgts = n.targets if isinstance(n, ast.Assign) else [n.target]
                for t in tgts:
                    for x in ast.walk(t):
                        if isinstance(x, ast.Name) and isinstance(x.ctx, ast.Store):
                            written_names.add(x.id)
                    if isinstance(t, (ast.Attribute, ast.Subscript)):
                        written_attrs.append(t)
            elif isinstance(n, (ast.comprehension,)):
                pass
            elif isinstance(n, ast.Call) and isinstance(n.func, ast.Attribute) and n.func.attr in ('extend', 'append') and \
                    isinstance(n.func.value, ast.Name) and isinstance(st.env.get(n.func.value.id), (SymList, list)):
                written_names.add(n.func.value.id)         # a symbolic list grown in place is written by the loop
        reads = []
        for n in ast.walk(s):
            if isinstance(n, ast.Name) and isinstance(n.ctx, ast.Load) and n.id in st.env and n.id not in written_names:
                reads.append(st.env[n.id])
            elif isinstance(n, ast.Attribute) and isinstance(n.ctx, ast.Load):
                try:
                    v = self.ev(n, st)
                    if isinstance(v, Rat):
                        reads.append(v)
                except CannotAnalyse:
                    pass
        if isinstance(s, ast.For):
            reads.append(self.ev(s.iter, st))
        # calls made in the loop body are recorded (with an opaque path condition) for call-based rules
        sub = st.copy()
        sub.pc = st.pc + [(f'loop#{self.loop_id}', True)]
        pre_vals = {}
        for nm in written_names:
            pre_vals[nm] = st.env.get(nm)
            if isinstance(st.env.get(nm), (SymList, list)):
                ll = Rat.of(mk_atom('fn', f'looplen#{self.loop_id}', (nm,)))
                sub.env[nm] = SymList(ll, segs=[('<prefix>', ll)])
            else:
                sub.env[nm] = loopvar(self.loop_id, nm)
        body_ok = True
        lid = self.loop_id
        try:
            outs = self.block(s.body, sub)
            fall = [o for o in outs if o[0] == 'fall'] or [o for o in outs if o[0] == 'continue']
            if fall:
                sub = fall[-1][1]        # the path that runs through the whole body (early `continue`s are on its pc)
            self.loop_bodies[lid] = {'node': s, 'pre': dict(pre_vals), 'post': dict(sub.env), 'store': dict(sub.store), 'test': self.cond(s.test, st)
                                     if isinstance(s, ast.While) else None}
        except CannotAnalyse:
            body_ok = False
        uniq = []
        seen = set()
        for r in reads:
            k = vkey(r)
            if k not in seen:
                seen.add(k)
                uniq.append(r)
        for nm in sorted(written_names):
            prev = st.env.get(nm)
            args = [nm] + ([prev if isinstance(prev, Rat) else vkey(prev)] if prev is not None else []) + uniq
            st.env[nm] = Rat.of(mk_atom('fn', f'loop#{self.loop_id}', args))
        # difference invariant for symbolic-length lists: len(l) - v is constant over an iteration (DESIGN 2.6)
        if body_ok:
            for nm in sorted(written_names):
                pre = as_symlist(pre_vals.get(nm))
                post = sub.env.get(nm)
                if pre is None or not isinstance(post, SymList):
                    continue
                dlen = post.length - Rat.of(mk_atom('fn', f'looplen#{self.loop_id}', (nm,)))
                done = False
                for v in sorted(written_names):
                    pv, nv = pre_vals.get(v), sub.env.get(v)
                    if not isinstance(pv, Rat) or not isinstance(nv, Rat):
                        continue
                    dv = nv - loopvar(self.loop_id, v)
                    if dv.eq(dlen) and not dlen.is_zero():
                        st.env[nm] = SymList(pre.length - pv + st.env[v])
                        self.invariants.append((self.loop_id, f'len({nm}) - {v} is invariant'))
                        done = True
                        break
                if not done and dlen.is_zero():
                    st.env[nm] = SymList(pre.length)
        for t in written_attrs:
            if isinstance(t, ast.Attribute):
                p = path_of(self.ev(t.value, st))
                if p is not None:
                    key = f'{p}.{t.attr}'
                    prev = st.store.get(key, Rat.of(mk_atom('fld', key)))
                    st.store[key] = Rat.of(mk_atom('fn', f'loop#{self.loop_id}', [key, prev] + uniq))
        for k in list(sub.store):
            if k not in st.store or vkey(sub.store[k]) != vkey(st.store[k]):
                prev = st.store.get(k, Rat.of(mk_atom('fld', k)))
                st.store[k] = Rat.of(mk_atom('fn', f'loop#{self.loop_id}', [k, prev] + uniq))
        if s.orelse:
            return self.block(s.orelse, st)
        return [('fall', st, None)]

    # ================================================================== assignment
    def assign(self, tgt, val, st):
        if isinstance(tgt, ast.Name):
            st.env[tgt.id] = val
        elif isinstance(tgt, (ast.Tuple, ast.List)):
            if isinstance(val, (tuple, list)) and len(val) == len(tgt.elts):
                for t, v in zip(tgt.elts, val):
                    self.assign(t, v, st)
            else:
                for i, t in enumerate(tgt.elts):
                    self.assign(t, fn('item', val if isinstance(val, Rat) else C(0), C(i)) if isinstance(val, Rat)
                                else Rat.of(mk_atom('fn', 'item', (vkey(val), i))), st)
        elif isinstance(tgt, ast.Attribute):
            base = self.ev(tgt.value, st)
            p = path_of(base)
            if p is None:
                self.unknown.append(('store on computed object', ast.unparse(tgt)))
                return
            cls = self.types.get(p)
            if cls is not None:
                setter = self.repo.method(cls, tgt.attr, 'setter', required=False)
                if setter is not None and self.depth < self.max_depth:
                    self.call_func(setter, [base, val], {}, st)
                    return
            st.store[f'{p}.{tgt.attr}'] = val
        elif isinstance(tgt, ast.Subscript):
            base = self.ev(tgt.value, st)
            p = path_of(base)
            key = self.slice_key(tgt.slice, st)
            self.substores.append((p or vkey(base), key, val, list(st.pc)))
            if p is not None:
                st.store[f'{p}[{key}]'] = val
            elif isinstance(tgt.value, ast.Name) and isinstance(st.env.get(tgt.value.id), DictV):
                d = dict(st.env[tgt.value.id].d)
                d[key] = val
                st.env[tgt.value.id] = DictV(d)
        elif isinstance(tgt, ast.Starred):
            self.assign(tgt.value, val, st)
        else:
            raise CannotAnalyse(f'assignment target {type(tgt).__name__}')

    def slice_key(self, sl, st):
        if isinstance(sl, ast.Constant):
            return repr(sl.value)
        if isinstance(sl, ast.Slice) or (isinstance(sl, ast.Tuple) and any(isinstance(e, ast.Slice) for e in sl.elts)):
            return ast.unparse(sl)
        try:
            return vkey(self.ev(sl, st))
        except CannotAnalyse:
            return ast.unparse(sl)

    # ================================================================== conditions
    def cond(self, t, st):
        if isinstance(t, ast.BoolOp):
            op = 'and' if isinstance(t.op, ast.And) else 'or'
            return f'{op}(' + ','.join(self.cond(v, st) for v in t.values) + ')'
        if isinstance(t, ast.UnaryOp) and isinstance(t.op, ast.Not):
            k = self.cond(t.operand, st)
            return k[4:-1] if k.startswith('not(') and k.endswith(')') and balanced(k[4:-1]) else f'not({k})'
        if isinstance(t, ast.Compare) and len(t.ops) > 1:
            parts, left = [], t.left
            for op, right in zip(t.ops, t.comparators):
                parts.append(self.cond(ast.Compare(left=left, ops=[op], comparators=[right]), st))
                left = right
            return 'and(' + ','.join(parts) + ')'
        if isinstance(t, ast.Compare) and len(t.ops) == 1:
            a, b = self.ev(t.left, st), self.ev(t.comparators[0], st)
            op = t.ops[0]
            if isinstance(b, Const) and b.v is None and isinstance(op, (ast.Is, ast.IsNot, ast.Eq, ast.NotEq)):
                k = f'isnone({vkey(a)})'
                return k if isinstance(op, (ast.Is, ast.Eq)) else f'not({k})'
            names = {ast.Eq: 'eq', ast.NotEq: 'ne', ast.Lt: 'lt', ast.LtE: 'le', ast.Gt: 'gt', ast.GtE: 'ge',
                     ast.In: 'in', ast.NotIn: 'notin', ast.Is: 'is', ast.IsNot: 'isnot'}
            n = names[type(op)]
            ka, kb = vkey(a), vkey(b)
            if n == 'ne':
                return f'not(eq({ka},{kb}))'
            if n == 'notin':
                return f'not(in({ka},{kb}))'
            if n == 'isnot':
                return f'not(is({ka},{kb}))'
            if n == 'gt':
                self.cond_info[f'lt({kb},{ka})'] = ('lt', b, a)
                return f'lt({kb},{ka})'
            if n == 'ge':
                self.cond_info[f'le({kb},{ka})'] = ('le', b, a)
                return f'le({kb},{ka})'
            self.cond_info[f'{n}({ka},{kb})'] = (n, a, b)
            return f'{n}({ka},{kb})'
        if isinstance(t, ast.Call) and isinstance(t.func, ast.Name) and t.func.id == 'isinstance' and len(t.args) == 2:
            return f'isinstance({vkey(self.ev(t.args[0], st))},{ast.unparse(t.args[1])})'
        if isinstance(t, ast.Call) and isinstance(t.func, ast.Name) and t.func.id == 'hasattr' and len(t.args) == 2:
            return f'hasattr({vkey(self.ev(t.args[0], st))},{ast.unparse(t.args[1])})'
        v = self.ev(t, st)
        if isinstance(v, Const):
            return f'const:{bool(v.v)}'
        if isinstance(v, Rat) and v.is_const():
            return f'const:{v.constval() != 0}'
        ba = v.single_atom() if isinstance(v, Rat) else None
        if ba is not None and ba.kind == 'fn' and ba.name in ('bool', 'call:bool') and len(ba.args) == 1:
            return f'truth({vkey(ba.args[0])})'          # the truth of bool(x) is the truth of x
        return f'truth({vkey(v)})'

    # ================================================================== expressions
    def ev(self, e, st):
        if isinstance(e, ast.Constant):
            if isinstance(e.value, (int, float)) and not isinstance(e.value, bool):
                fr = num_fraction(e.value)
                if fr is None:
                    return fn('const', Const(repr(e.value)))
                return Rat.const(fr)
            return Const(e.value)
        if isinstance(e, ast.Name):
            if e.id in st.env:
                return st.env[e.id]
            return self.global_name(e.id)
        if isinstance(e, ast.UnaryOp):
            if isinstance(e.op, ast.USub):
                return -self.num(self.ev(e.operand, st))
            if isinstance(e.op, ast.UAdd):
                return self.ev(e.operand, st)
            if isinstance(e.op, ast.Not):
                return Rat.of(mk_atom('fn', 'cond', (self.cond(e, st),)))
            return fn('invert', self.num(self.ev(e.operand, st)))
        if isinstance(e, ast.BinOp):
            return self.binop(e.op, self.ev(e.left, st), self.ev(e.right, st))
        if isinstance(e, ast.BoolOp) or isinstance(e, ast.Compare):
            return Rat.of(mk_atom('fn', 'cond', (self.cond(e, st),)))
        if isinstance(e, ast.IfExp):
            ck = self.cond(e.test, st)
            a, b = self.ev(e.body, st), self.ev(e.orelse, st)
            if ck == 'const:True':
                return a
            if ck == 'const:False':
                return b
            if ck.startswith('not(') and ck.endswith(')') and balanced(ck[4:-1]):
                return merge2(ck[4:-1], b, a)
            return merge2(ck, a, b)
        if isinstance(e, ast.Attribute):
            return self.attribute(e, st)
        if isinstance(e, ast.Call):
            return self.call(e, st)
        if isinstance(e, ast.Subscript):
            base = self.ev(e.value, st)
            # numpy broadcasting roles written with newaxis (same as outer(x, ones) / outer(ones, x), DESIGN 2.5):
            # x[:, newaxis][c, p] = x[c] (cut role);  x[newaxis, :][c, p] = x[p] (pump role = the bare 1-D value)
            if isinstance(e.slice, ast.Tuple) and len(e.slice.elts) == 2 and isinstance(base, Rat):
                def full_slice(x):
                    return isinstance(x, ast.Slice) and x.lower is None and x.upper is None and x.step is None

                def new_axis(x):
                    return (isinstance(x, ast.Name) and x.id == 'newaxis') or (isinstance(x, ast.Constant) and x.value is None) or \
                        (isinstance(x, ast.Attribute) and x.attr == 'newaxis')
                a0, a1 = e.slice.elts
                if full_slice(a0) and new_axis(a1):
                    return lem_cut(base)
                if new_axis(a0) and full_slice(a1):
                    return base
            key = self.slice_key(e.slice, st)
            if isinstance(base, (tuple, list)) and isinstance(e.slice, ast.Constant) and isinstance(e.slice.value, int):
                try:
                    return base[e.slice.value]
                except IndexError:
                    pass
            if isinstance(base, DictV) and key in base.d:
                return base.d[key]
            if isinstance(base, Rat) and key == vkey(fn('argmin', base)):
                return fn('min', base)           # x[argmin(x)] = min(x)
            if isinstance(base, SymList) and base.lo is not None:
                if key == '0':
                    return base.lo
                if key == '-1':
                    return base.hi
            p = path_of(base)
            if p is not None and f'{p}[{key}]' in st.store:
                return st.store[f'{p}[{key}]']
            return Rat.of(mk_atom('fn', 'sub', (base if isinstance(base, Rat) else vkey(base), key)))
        if isinstance(e, ast.Tuple):
            return tuple(self.ev(x, st) for x in e.elts)
        if isinstance(e, ast.List):
            return [self.ev(x, st) for x in e.elts]
        if isinstance(e, ast.Dict):
            d = {}
            for k, v in zip(e.keys, e.values):
                if k is None:
                    return Rat.of(mk_atom('fn', 'dict', (ast.unparse(e),)))
                kk = repr(k.value) if isinstance(k, ast.Constant) else vkey(self.ev(k, st))
                d[kk] = self.ev(v, st)
            return DictV(d)
        if isinstance(e, ast.JoinedStr):
            return Rat.of(mk_atom('fn', 'fstring', (ast.unparse(e),)))
        if isinstance(e, (ast.ListComp, ast.GeneratorExp, ast.SetComp, ast.DictComp)):
            return self.comprehension(e, st)
        if isinstance(e, ast.Starred):
            return self.ev(e.value, st)
        if isinstance(e, ast.Lambda):
            return Rat.of(mk_atom('fn', 'lambda', (ast.unparse(e),)))
        if isinstance(e, ast.NamedExpr):
            v = self.ev(e.value, st)
            self.assign(e.target, v, st)
            return v
        raise CannotAnalyse(f'expression {type(e).__name__} at {self.func.loc(e)}')

    def comprehension(self, e, st):
        """opaque, but remembers what it reads (free names and attribute chains)"""
        bound = []
        for g in e.generators:
            for x in sorted((x for x in ast.walk(g.target) if isinstance(x, ast.Name)), key=lambda x: (x.lineno, x.col_offset)):
                if x.id not in bound:
                    bound.append(x.id)
        reads = []
        seen = set()
        sub = st.copy()
        depth = getattr(self, '_comp_depth', 0)
        self._comp_depth = depth + 1
        for i, b in enumerate(bound):
            # bound variables are named by position, not by identifier (alpha-equivalence of comprehensions)
            sub.env[b] = Rat.of(mk_atom('fn', 'compvar', (f'#{depth}.{i}',)))
        parts = [g.iter for g in e.generators] + [c for g in e.generators for c in g.ifs]
        parts += [e.key, e.value] if isinstance(e, ast.DictComp) else [e.elt]
        for part in parts:
            try:
                v = self.ev(part, sub)
            except CannotAnalyse:
                v = None
            for x in flatten(v):
                k = vkey(x)
                if k not in seen:
                    seen.add(k)
                    reads.append(x)
        self._comp_depth = depth
        kind = {ast.ListComp: 'listcomp', ast.GeneratorExp: 'genexp', ast.SetComp: 'setcomp',
                ast.DictComp: 'dictcomp'}[type(e)]
        return Rat.of(mk_atom('fn', kind, reads))

    def global_name(self, name):
        mod = self.frames[-1].module
        kls = getattr(self.frames[-1], 'cls', None)
        if kls is not None and name in kls.class_assigns:       # default values evaluated in the class body scope
            v = const_fold(kls.class_assigns[name], mod, self.repo)
            if v is not None:
                return Rat.const(v)
        r = self.repo.resolve_name(mod, name)
        if isinstance(r, tuple) and r[0] == 'const':
            v = const_fold(r[1], r[2], self.repo)
            if v is not None:
                return Rat.const(v)
            if isinstance(r[1], ast.Constant):
                return Const(r[1].value)
            return Rat.of(mk_atom('sym', f'{r[2].name}.{name}'))
        if name in ('None', 'True', 'False'):
            return Const({'None': None, 'True': True, 'False': False}[name])
        if name == 'pi':
            return Rat.sym('pi')
        if name in ('inf',):
            return Rat.sym('inf')
        if isinstance(r, (Func, Cls)):
            return Rat.of(mk_atom('sym', f'<{r.qual}>'))
        if isinstance(r, tuple) and r[0] == 'module':
            return Rat.of(mk_atom('sym', f'<{r[1].name}>'))
        return Rat.sym(name)

    def num(self, v):
        if isinstance(v, Rat):
            return v
        if isinstance(v, Const) and isinstance(v.v, bool):
            return C(int(v.v))
        return Rat.of(mk_atom('fn', 'val', (vkey(v),)))

    def binop(self, op, a, b):
        if isinstance(op, ast.Add) and isinstance(a, (list, tuple)) and isinstance(b, (list, tuple)):
            return list(a) + list(b)
        if isinstance(op, ast.Add) and (isinstance(a, SymList) or isinstance(b, SymList)):
            la, lb = as_symlist(a), as_symlist(b)
            if la is not None and lb is not None:
                return la.concat(lb)
        if isinstance(op, ast.Mult) and isinstance(a, list) and isinstance(b, Rat):
            return SymList(C(len(a)) * b, segs=[(vkey(a[0]), b)] if len(a) == 1 else None)
        if isinstance(op, ast.Mult) and isinstance(b, list) and isinstance(a, Rat):
            return SymList(C(len(b)) * a, segs=[(vkey(b[0]), a)] if len(b) == 1 else None)
        if isinstance(a, SymList) or isinstance(b, SymList):
            return Rat.of(mk_atom('fn', type(op).__name__.lower(), (a if isinstance(a, Rat) else vkey(a),
                                                                   b if isinstance(b, Rat) else vkey(b))))
        if isinstance(a, (list, tuple, DictV, Const)) or isinstance(b, (list, tuple, DictV, Const)):
            if isinstance(a, Const) and isinstance(a.v, bool):
                a = C(int(a.v))
            if isinstance(b, Const) and isinstance(b.v, bool):
                b = C(int(b.v))
            if not (isinstance(a, Rat) and isinstance(b, Rat)):
                return Rat.of(mk_atom('fn', type(op).__name__.lower(), (a if isinstance(a, Rat) else vkey(a),
                                                                       b if isinstance(b, Rat) else vkey(b))))
        if isinstance(op, ast.Add):
            return a + b
        if isinstance(op, ast.Sub):
            return a - b
        if isinstance(op, ast.Mult):
            return a * b
        if isinstance(op, ast.Div):
            if b.is_zero():
                return fn('div0', a)
            return a / b
        if isinstance(op, ast.Pow):
            return lem_pow(a, b)
        if isinstance(op, ast.FloorDiv):
            return fn('floordiv', a, b)
        if isinstance(op, ast.Mod):
            return fn('mod', a, b)
        if isinstance(op, ast.MatMult):
            return fn('matmul', a, b)
        return fn(type(op).__name__.lower(), a, b)

    def attribute(self, e, st):
        return self.attr_of(self.ev(e.value, st), e, st)

    def attr_of(self, base, e, st):
        ga = base.single_atom() if isinstance(base, Rat) else None
        if ga is not None and ga.kind == 'gamma' and isinstance(ga.args[1], Rat) and isinstance(ga.args[2], Rat):
            # an attribute of `a if c else b` is the attribute of a if c, else of b
            return merge2(ga.args[0], self.attr_of(ga.args[1], e, st), self.attr_of(ga.args[2], e, st))
        p = path_of(base)
        if p is not None:
            key = f'{p}.{e.attr}'
            if key in st.store:
                return st.store[key]
            cls = self.types.get(p)
            if cls is not None:
                g = self.repo.method(cls, e.attr, 'getter', required=False)
                if g is not None and self.depth < self.max_depth and self.may_inline(g):
                    return self.call_func(g, [base], {}, st)
            if p.startswith('<') and p.endswith('>'):      # class attribute of a repo class / module attribute
                return self.class_attr(p[1:-1], e.attr)
            return Rat.of(mk_atom('fld', key))
        if isinstance(base, DictV):
            return Rat.of(mk_atom('fn', 'attr', (vkey(base), e.attr)))
        if isinstance(base, Rat):
            return Rat.of(mk_atom('fn', 'attr', (base, e.attr)))
        return Rat.of(mk_atom('fn', 'attr', (vkey(base), e.attr)))

    def class_attr(self, qual, attr):
        for m in self.repo.modules.values():
            for c in m.classes.values():
                if c.qual == qual and attr in c.class_assigns:
                    v = const_fold(c.class_assigns[attr], m, self.repo)
                    if v is not None:
                        return Rat.const(v)
        return Rat.of(mk_atom('fld', f'<{qual}>.{attr}'))

    # ================================================================== calls
    def may_inline(self, f):
        if f.qual in self.no_inline or f.name in self.no_inline:
            return False
        if self.inline is not None:
            r = self.inline(f)
            if r is not None:
                return r
        n = sum(1 for x in ast.walk(f.node) if isinstance(x, ast.stmt)) - 1
        if any(isinstance(x, (ast.For, ast.While, ast.Try)) for x in ast.walk(f.node)):
            return False
        return n <= 30

    def call(self, e, st):
        f = e.func
        args, kwargs = [], {}
        for a in e.args:
            args.append(self.ev(a, st))
        for k in e.keywords:
            if k.arg is None:
                kwargs['**'] = self.ev(k.value, st)
            else:
                kwargs[k.arg] = self.ev(k.value, st)
        name = f.id if isinstance(f, ast.Name) else (f.attr if isinstance(f, ast.Attribute) else None)
        base = None
        callee = None
        if isinstance(f, ast.Attribute) and isinstance(f.value, ast.Name) and f.attr in ('extend', 'append') and len(args) == 1 and \
                not kwargs and isinstance(st.env.get(f.value.id), (SymList, list)):
            # a symbolic list grown in place: the value of  l.extend(x) / l.append(x)  is that of  l = l + x / l + [x]
            cur = st.env[f.value.id]
            add = args[0] if f.attr == 'extend' else [args[0]]
            if isinstance(add, (SymList, list)):
                st.env[f.value.id] = self.binop(ast.Add(), cur, add)
                return Const(None) if 'Const' in globals() else C(0)
        if isinstance(f, ast.Name):
            if f.id in st.env:       # local callable
                rec = CallRec(name, None, args, kwargs, list(st.pc), e)
                self.calls.append(rec)
                return self.opaque_call(f'local:{f.id}', None, args, kwargs)
            r = self.repo.resolve_name(self.frames[-1].module, f.id)
            if isinstance(r, (Func, Cls)):
                callee = r
            self.calls.append(CallRec(name, callee, args, kwargs, list(st.pc), e))
            if callee is None:
                return self.builtin(f.id, args, kwargs, e, st)
            if isinstance(callee, Func) and self.depth < self.max_depth and self.may_inline(callee):
                return self.call_func(callee, args, kwargs, st)
            return self.opaque_call(callee.qual, callee, args, kwargs, st)
        if isinstance(f, ast.Attribute):
            # super().m(...)
            if isinstance(f.value, ast.Call) and isinstance(f.value.func, ast.Name) and f.value.func.id == 'super':
                cur = self.frames[-1]
                callee = self.repo.resolve_call(cur, e, self_cls=cur.cls)
                base = st.env.get('self')
                self.calls.append(CallRec(name, callee, args, kwargs, list(st.pc), e, base))
                if callee is not None and self.depth < self.max_depth and self.may_inline(callee):
                    return self.call_func(callee, [base] + args, kwargs, st)
                return self.opaque_call(f'super.{name}', callee, [base] + args, kwargs, st)
            base = self.ev(f.value, st)
            p = path_of(base)
            if p is not None and p.startswith('<') and p.endswith('>'):
                # Module.func / Class.method
                target = self.lookup_qual(p[1:-1], f.attr)
                self.calls.append(CallRec(name, target, args, kwargs, list(st.pc), e))
                if isinstance(target, Func):
                    a2 = args if target.kind in ('staticmethod', 'function') else \
                        ([base] + args if target.kind == 'classmethod' else args)
                    if self.depth < self.max_depth and self.may_inline(target):
                        return self.call_func(target, a2, kwargs, st)
                    return self.opaque_call(target.qual, target, a2, kwargs, st)
                return self.opaque_call(f'{p[1:-1]}.{f.attr}', None, args, kwargs)
            cls = self.types.get(p) if p is not None else None
            if cls is not None:
                callee = self.repo.method(cls, f.attr, required=False)
            self.calls.append(CallRec(name, callee, args, kwargs, list(st.pc), e, base))
            if callee is not None:
                if self.depth < self.max_depth and self.may_inline(callee):
                    return self.call_func(callee, [base] + args, kwargs, st)
                return self.opaque_call(callee.qual, callee, [base] + args, kwargs, st)
            # module alias call (np.xxx / math.xxx) or method on a value
            if isinstance(f.value, ast.Name) and f.value.id not in st.env:
                r = self.repo.resolve_name(self.frames[-1].module, f.value.id)
                if isinstance(r, tuple) and r[0] == 'module':
                    tgt = r[1].functions.get(f.attr) or r[1].classes.get(f.attr)
                    self.calls[-1].callee = tgt
                    if isinstance(tgt, Func):
                        if self.depth < self.max_depth and self.may_inline(tgt):
                            return self.call_func(tgt, args, kwargs, st)
                        return self.opaque_call(tgt.qual, tgt, args, kwargs, st)
                if r is None:
                    return self.builtin(f.attr, args, kwargs, e, st)
            return self.method_on_value(f.attr, base, args, kwargs)
        # call of a call result etc.
        fv = self.ev(f, st)
        self.calls.append(CallRec(None, None, args, kwargs, list(st.pc), e))
        return Rat.of(mk_atom('fn', 'callv', [fv if isinstance(fv, Rat) else vkey(fv)] + self.argkeys(args, kwargs)))

    def lookup_qual(self, qual, attr):
        for m in self.repo.modules.values():
            if m.name == qual:
                return m.functions.get(attr) or m.classes.get(attr)
            for c in m.classes.values():
                if c.qual == qual:
                    return self.repo.method(c, attr, required=False)
        return None

    def argkeys(self, args, kwargs):
        out = [a if isinstance(a, Rat) else vkey(a) for a in args]
        for k in sorted(kwargs):
            v = kwargs[k]
            out.append(f'{k}=')
            out.append(v if isinstance(v, Rat) else vkey(v))
        return out

    def opaque_call(self, name, callee, args, kwargs, st=None):
        v = Rat.of(mk_atom('fn', f'call:{name}', self.argkeys(args, kwargs)))
        if st is not None and isinstance(callee, Func):
            self.havoc_effects(callee, args, kwargs, st, v)
        return v

    def havoc_effects(self, callee, args, kwargs, st, callval):
        from .effects import effects_of
        eff = effects_of(self.repo, callee)
        params = callee.params
        for idx, attrs in eff.param_writes.items():
            if idx < len(args):
                a = args[idx]
            elif idx < len(params) and params[idx] in kwargs:
                a = kwargs[params[idx]]
            else:
                continue
            p = path_of(a)
            if p is None:
                continue
            for attr in attrs:
                key = f'{p}.{attr}'
                st.store[key] = Rat.of(mk_atom('fn', f'havoc:{callee.qual}', (key, callval)))

    def method_on_value(self, name, base, args, kwargs):
        if name in ('copy',) and not args:
            return base
        if name == 'get' and isinstance(base, DictV) and args:
            k = repr(args[0].v) if isinstance(args[0], Const) else vkey(args[0])
            if k in base.d:
                return base.d[k]
            return args[1] if len(args) > 1 else Const(None)
        if name in ('sum', 'mean', 'min', 'max', 'all', 'any') and isinstance(base, Rat) and not args:
            return fn(name, base)
        return Rat.of(mk_atom('fn', f'.{name}', [base if isinstance(base, Rat) else vkey(base)] +
                              self.argkeys(args, kwargs)))

    def builtin(self, name, args, kwargs, node, st):
        if 'axis' in kwargs and len(args) == 1 and name in ('sum', 'mean', 'prod', 'cumsum', 'amax', 'amin', 'argmin', 'argmax', 'flip',
                                                            'concatenate', 'squeeze', 'expand_dims', 'stack'):
            # numpy reductions: f(a, axis=k) is f(a, k)
            kwargs = dict(kwargs)
            args = list(args) + [kwargs.pop('axis')]
        a = args
        if name in IDENTITY_CALLS and len(a) >= 1:
            return a[0]
        if name in ('abs', 'absolute', 'fabs') and len(a) == 1:
            return lem_abs(self.num(a[0]))
        if name == 'log10' and len(a) == 1:
            return lem_log(self.num(a[0]), 'log10')
        if name == 'log' and len(a) == 1:
            return lem_log(self.num(a[0]), 'log')
        if name == 'exp' and len(a) == 1:
            return lem_exp(self.num(a[0]), 'exp')
        if name == 'sqrt' and len(a) == 1:
            return lem_sqrt(self.num(a[0]))
        if name in ('arcsinh', 'asinh') and len(a) == 1:
            return lem_odd('asinh', self.num(a[0]))
        if name == 'outer' and len(a) == 2:
            # numpy broadcasting roles (DESIGN 2.5): outer(x, ones(n))[c,p] = x[c] (cut role);
            # outer(ones(n), x)[c,p] = x[p] = what a bare 1-D x broadcasts to in a 2-D context (pump role = bare)
            a0 = a[0].single_atom() if isinstance(a[0], Rat) else None
            a1 = a[1].single_atom() if isinstance(a[1], Rat) else None
            if a1 is not None and a1.kind == 'fn' and a1.name == 'ones' and isinstance(a[0], Rat):
                return lem_cut(a[0])
            if a0 is not None and a0.kind == 'fn' and a0.name == 'ones' and isinstance(a[1], Rat):
                return a[1]
        if name == 'ones' and len(a) == 1 and isinstance(a[0], (list, tuple)) and len(a[0]) == 2:
            return C(1)          # all-ones matrix: the scalar 1 under element-wise arithmetic
        if name == 'diag' and len(a) == 1 and isinstance(a[0], Rat) and a[0].single_atom() is not None and \
                a[0].single_atom().name == 'ones':
            return Rat.sym('IDENTITY')
        if name in ('eye', 'identity') and len(a) == 1 and not kwargs:
            return Rat.sym('IDENTITY')                 # numpy.eye(n) is diag(ones(n))
        if name == 'square' and len(a) == 1:
            return self.num(a[0]).pow(2)
        if name == 'negative' and len(a) == 1:
            return -self.num(a[0])
        if name in ('min', 'minimum') and len(a) == 2 and not kwargs:
            return lem_min(self.num(a[0]), self.num(a[1]))
        if name in ('max', 'maximum') and len(a) == 2 and not kwargs:
            return lem_max(self.num(a[0]), self.num(a[1]))
        if name in NP_BIN and len(a) == 2:
            return self.binop(NP_BIN[name](), self.num(a[0]), self.num(a[1]))
        if name == 'pow' and len(a) == 2:
            return lem_pow(self.num(a[0]), self.num(a[1]))
        if name == 'len' and len(a) == 1 and isinstance(a[0], (list, tuple)):
            return C(len(a[0]))
        if name == 'len' and len(a) == 1 and isinstance(a[0], SymList):
            return a[0].length
        if name == 'range' and 1 <= len(a) <= 2 and all(isinstance(x, Rat) for x in a):
            lo, hi = (C(0), a[0]) if len(a) == 1 else (a[0], a[1])
            return SymList(hi - lo, lo, hi - C(1))
        if name == 'isinstance' or name == 'hasattr':
            return Rat.of(mk_atom('fn', 'cond', (self.cond(node, st),)))
        if name == 'dict' and not a:
            return DictV({repr(k): v for k, v in kwargs.items()})
        return Rat.of(mk_atom('fn', name, self.argkeys(args, kwargs)))

    def call_func(self, f, args, kwargs, st):
        """inline a resolved repo function: fresh local env, shared store"""
        params = f.params
        env = {}
        defaults = f.defaults()
        kwargs = dict(kwargs)
        star = kwargs.pop('**', None)
        for i, p in enumerate(params):
            if i < len(args):
                env[p] = args[i]
            elif p in kwargs:
                env[p] = kwargs.pop(p)
            elif p in defaults:
                env[p] = self.ev_default(defaults[p], f)
            else:
                env[p] = Rat.of(mk_atom('fn', 'missing_arg', (f.qual, p)))
        for p in f.kwonly:
            if p in kwargs:
                env[p] = kwargs.pop(p)
            elif p in defaults:
                env[p] = self.ev_default(defaults[p], f)
        if f.node.args.vararg:
            env[f.node.args.vararg.arg] = list(args[len(params):])
        if f.node.args.kwarg:
            env[f.node.args.kwarg.arg] = DictV({repr(k): v for k, v in kwargs.items()})
        sub = State(env, dict(st.store), list(st.pc))
        self.depth += 1
        self.frames.append(f)
        try:
            outs = self.block(f.node.body, sub)
        finally:
            self.depth -= 1
            self.frames.pop()
        rets = []
        stores = []
        for kind, s, val in outs:
            if kind == 'return':
                rets.append((s.pc[len(st.pc):], val))
                stores.append((s.pc[len(st.pc):], s.store))
            elif kind == 'fall':
                rets.append((s.pc[len(st.pc):], Const(None)))
                stores.append((s.pc[len(st.pc):], s.store))
        if not rets:
            return Rat.of(mk_atom('fn', 'bottom', (f.qual,)))
        # merge stores back
        if len(stores) == 1:
            snap = dict(stores[0][1])
            st.store.clear()
            st.store.update(snap)
        else:
            keys = set()
            for _, s in stores:
                keys |= set(s)
            merged = {}
            for k in keys:
                merged[k] = merge_outcomes([(pc, s.get(k, Rat.of(mk_atom('fld', k)))) for pc, s in stores])
            st.store.clear()
            st.store.update(merged)
        return merge_outcomes(rets)

    def ev_default(self, node, f):
        self.frames.append(f)
        try:
            return self.ev(node, State())
        finally:
            self.frames.pop()


# ---------------------------------------------------------------------------- helpers
def balanced(s):
    d = 0
    for ch in s:
        if ch == '(':
            d += 1
        elif ch == ')':
            d -= 1
            if d < 0:
                return False
    return d == 0


def load_of(t):
    """a Load-context copy of an assignment target"""
    import copy
    n = _clone(t)
    for x in ast.walk(n):
        if hasattr(x, 'ctx'):
            x.ctx = ast.Load()
    return n


def flatten(v):
    if v is None:
        return []
    if isinstance(v, (list, tuple)):
        out = []
        for x in v:
            out += flatten(x)
        return out
    if isinstance(v, DictV):
        out = []
        for x in v.d.values():
            out += flatten(x)
        return out
    return [v]


def merge2(ck, a, b):
    """gamma(ck, a, b) lifted over tuples / non-numeric values"""
    if isinstance(a, Rat) and isinstance(b, Rat):
        return gamma(ck, a, b)
    if isinstance(a, (tuple, list)) and isinstance(b, (tuple, list)) and len(a) == len(b):
        return type(a)(merge2(ck, x, y) for x, y in zip(a, b))
    if vkey(a) == vkey(b):
        return a
    wa = a if isinstance(a, Rat) else Rat.of(mk_atom('fn', 'val', (vkey(a),)))
    wb = b if isinstance(b, Rat) else Rat.of(mk_atom('fn', 'val', (vkey(b),)))
    return gamma(ck, wa, wb)


def merge_outcomes(outs):
    """outs: ordered [(pc, value)]; outcome i happens iff pc_i holds and no earlier one happened"""
    outs = [o for o in outs]
    if not outs:
        return Rat.of(mk_atom('fn', 'bottom', ()))
    if len(outs) == 1:
        return outs[0][1]
    # strip the common prefix of path conditions
    pre = 0
    while all(len(pc) > pre for pc, _ in outs) and len({pc[pre] for pc, _ in outs}) == 1:
        pre += 1
    outs = [(pc[pre:], v) for pc, v in outs]
    rest = merge_outcomes(outs[1:])
    pc, v = outs[0]
    res = v
    for ck, val in reversed(pc):
        res = merge2(ck, res, rest) if val else merge2(ck, rest, res)
    if not pc:
        return v
    return res


def depends_on(v, pred):
    """does value v (transitively, through atom arguments) contain an atom satisfying pred(Atom)?"""
    for x in flatten(v):
        if isinstance(x, Rat):
            for a in x.all_atoms().values():
                if pred(a):
                    return True
    return False


def atoms_of(v):
    out = {}
    for x in flatten(v):
        if isinstance(x, Rat):
            out.update(x.all_atoms())
    return out


def spec(text, binding, repo=None):
    """parse a specification expression through the same front end; binding: symbol -> value"""
    tree = ast.parse(text, mode='eval').body

    class _F:
        module = None
    dummy_mod = type('M', (), {'functions': {}, 'classes': {}, 'constants': {}, 'imports': {}, 'name': '<spec>',
                               'rel': '<spec>'})()
    f = type('F', (), {'module': dummy_mod, 'cls': None, 'params': [], 'kwonly': [], 'qual': '<spec>',
                       'loc': lambda self, n=None: '<spec>'})()

    class _R:
        modules = {}

        def resolve_name(self, m, n):
            return None

        def method(self, *a, **k):
            return None
    ev = Evaluator(_R(), f)
    st = State(dict(binding))
    for n in ast.walk(tree):
        if isinstance(n, ast.Name) and n.id not in binding and n.id not in (
                'abs', 'min', 'max', 'log10', 'sqrt', 'exp', 'log', 'pi', 'asinh', 'sum', 'round', 'mean'):
            raise CannotAnalyse(f'spec symbol {n.id} is unbound in {text!r}')
    return ev.ev(tree, st)
