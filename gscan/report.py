"""Obligation bookkeeping, known findings, evidence writing, exit codes (DESIGN 1, 3.2, 3.3)."""
import json
import os
import time
import hashlib

VERIF = os.path.dirname(os.path.dirname(os.path.abspath(__file__)))
OUT = os.environ.get('GSCAN_OUT', VERIF)     # scratch runs of the self-validation write elsewhere


class Ctx:
    """one run of one property's rule set"""

    def __init__(self, pid, tier, repo, seed=0, level='other'):
        self.pid, self.tier, self.repo, self.seed, self.level = pid, tier, repo, seed, level
        self.obs = []            # dict(rule, site, verdict, detail, key)
        self.errors = []         # analysis errors
        self.minimums = {}       # rule -> (required, why)
        self.t0 = time.time()
        self.notes = []
        self.extra = {}

    # ------------------------------------------------------------ recording
    def ok(self, rule, site, detail=''):
        self.obs.append({'rule': rule, 'site': site, 'verdict': 'discharged', 'detail': detail})

    def bad(self, rule, site, key, what, detail=''):
        """a violated obligation.  key = qualified construct + normalised text (no line numbers)"""
        self.obs.append({'rule': rule, 'site': site, 'verdict': 'violated', 'detail': detail, 'key': key, 'what': what})

    def check(self, rule, site, cond, key, what, detail=''):
        if cond:
            self.ok(rule, site, detail)
        else:
            self.bad(rule, site, key, what, detail)
        return cond

    def cannot(self, rule, site, why):
        self.errors.append({'rule': rule, 'site': site, 'why': why})

    def info(self, text):
        self.notes.append(text)

    def need(self, rule, n, why=''):
        """fail closed if fewer than n obligations of this rule were evaluated"""
        self.minimums[rule] = (n, why)

    def count(self, rule):
        return sum(1 for o in self.obs if o['rule'] == rule or o['rule'].startswith(rule + '.'))

    # ------------------------------------------------------------ finishing
    def finish(self, explanation, assumptions, rule_text, proof=None):
        known = load_known()
        any_viol = any(o['verdict'] == 'violated' and match_known(known, self.pid, o) is None for o in self.obs)
        for rule, (n, why) in self.minimums.items():
            got = self.count(rule)
            if got < n and not any_viol:     # with a violation reported, dependent obligations are legitimately skipped
                self.cannot(rule, '-', f'only {got} instance(s) of this rule matched, {n} confirmed by hand on the '
                                       f'reference tree ({why}): the rule would pass vacuously')
        viol, knownhits = [], []
        for o in self.obs:
            if o['verdict'] != 'violated':
                continue
            k = match_known(known, self.pid, o)
            if k is not None:
                o['verdict'] = 'known-finding'
                knownhits.append((o, k))
            else:
                viol.append(o)
        lines = []
        for o, k in knownhits:
            lines.append(f"KNOWN-FINDING: property={self.pid} rule={o['rule']} {o['site']} {k['what']}")
        os.makedirs(os.path.join(OUT, 'replay'), exist_ok=True)
        for o in viol:
            h = hashlib.sha1((o['rule'] + '|' + o['key']).encode()).hexdigest()[:10]
            path = os.path.join(OUT, 'replay', f'{self.pid}-{o["rule"].replace("/", "_")}-{h}.json')
            with open(path, 'w') as fh:
                json.dump({'property': self.pid, 'rule': o['rule'], 'site': o['site'], 'key': o['key'],
                           'what': o['what'], 'detail': o['detail']}, fh, indent=1)
            lines.append(f"  {o['site']}: [{o['rule']}] {o['what']}" + (f"\n      {o['detail']}" if o['detail'] else ''))
            lines.append(f"VIOLATION property={self.pid} replay={path}")
        for e in self.errors:
            lines.append(f"ANALYSIS-ERROR property={self.pid} rule={e['rule']} {e['site']}: {e['why']}")
        nontrivial = {(o['rule'], o['site']) for o in self.obs}
        disch = sum(1 for o in self.obs if o['verdict'] == 'discharged')
        cov = {
            'evaluations': len(self.obs),
            'distinct_nontrivial': len(nontrivial),
            'rule': rule_text,
            'samples': [{k: o[k] for k in ('rule', 'site', 'verdict', 'detail')} for o in _sample(self.obs)],
            'obligations': len(self.obs),
            'discharged': disch,
            'explanation': explanation,
            'exhaustive': True,
            'per_rule': _per_rule(self.obs),
            'known_findings_reproduced': [f"{o['rule']} {o['site']}" for o, _ in knownhits],
            'analysis_errors': self.errors,
            'notes': self.notes,
        }
        cov.update(self.extra)
        if proof:
            cov.update(proof)
        ev = {
            'property_id': self.pid, 'tier': self.tier, 'seed': self.seed, 'level': self.level,
            'coverage': cov, 'assumptions': assumptions,
            'wall_s': round(time.time() - self.t0, 3), 'violations': len(viol),
        }
        os.makedirs(os.path.join(OUT, 'evidence'), exist_ok=True)
        with open(os.path.join(OUT, 'evidence', f'{self.pid}.json'), 'w') as fh:
            json.dump(ev, fh, indent=1, default=str)
        code = 1 if viol else (2 if self.errors else 0)
        summary = (f"{self.pid} [{self.tier}] obligations={len(self.obs)} discharged={disch} "
                   f"known={len(knownhits)} violations={len(viol)} analysis_errors={len(self.errors)} "
                   f"wall={ev['wall_s']}s")
        return code, lines, summary


def _sample(obs, n=40):
    """every non-discharged obligation plus the first few of each rule"""
    out, seen = [], {}
    for o in obs:
        if o['verdict'] != 'discharged':
            out.append(o)
            continue
        c = seen.get(o['rule'], 0)
        if c < 3:
            out.append(o)
        seen[o['rule']] = c + 1
    return out[:max(n, 1)] if len(out) > n else out


def _per_rule(obs):
    d = {}
    for o in obs:
        r = d.setdefault(o['rule'], {'evaluated': 0, 'discharged': 0})
        r['evaluated'] += 1
        if o['verdict'] == 'discharged':
            r['discharged'] += 1
    return d


def load_known():
    p = os.path.join(VERIF, 'known_findings.json')
    if not os.path.exists(p):
        return []
    with open(p) as fh:
        return json.load(fh).get('findings', [])


def match_known(known, pid, o):
    for k in known:
        if k.get('status') == 'known' and k['property'] == pid and k['rule'] == o['rule'] and k['key'] == o['key']:
            return k
    return None
