"""Constructor field / key agreement: `self.X = params['Y']` (or .get / .pop) stores the configuration entry Y under
its own name.  The package does this at ~70 sites; the handful of deliberate renames is frozen in RENAMES.  A site that
stores entry Y under the name of ANOTHER known entry (copy-paste slip: booster_gain_min <- params['preamp_gain_min'])
is reported."""
import ast

RENAMES = {
    ('per_degree_pch_psd', 'per_degree_psd_out_mWperGHz'), ('per_degree_pch_psw', 'per_degree_psd_out_mWperSlotWidth'),
    ('impairments', 'impairment'), ('_raman_reference_frequency', 'reference_frequency'),
}


def sites(f):
    out = []
    for s in ast.walk(f.node):
        if isinstance(s, ast.Assign) and len(s.targets) == 1 and isinstance(s.targets[0], ast.Attribute) and \
                isinstance(s.targets[0].value, ast.Name) and s.targets[0].value.id == 'self':
            v = s.value
            key = None
            if isinstance(v, ast.Subscript) and isinstance(v.slice, ast.Constant) and isinstance(v.slice.value, str):
                key = v.slice.value
            elif isinstance(v, ast.Call) and isinstance(v.func, ast.Attribute) and v.func.attr in ('get', 'pop') and v.args and \
                    isinstance(v.args[0], ast.Constant) and isinstance(v.args[0].value, str):
                key = v.args[0].value
            if key is not None:
                out.append((s, s.targets[0].attr, key))
    return out


def field_key_rule(ctx, rule, classes, why):
    from .rules.common import site
    n = 0
    for cls in classes:
        for f in cls.all_funcs():
            ss = sites(f)
            names = {a for _, a, _ in ss} | {k for _, _, k in ss}
            for s, attr, key in ss:
                n += 1
                same = attr.lstrip('_') == key.lstrip('_') or attr.lstrip('_') == key.replace('-', '_')
                ok = same or (attr, key) in RENAMES
                ctx.check(rule, f'{site(f, s)} {attr}', ok, f'{f.qual}|field-key|{attr}|{key}',
                          f"self.{attr} is filled from the configuration entry '{key}': {why}", ast.unparse(s)[:120])
    return n
