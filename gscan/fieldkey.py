"""Constructor field / key agreement: `self.X = params['Y']` (or .get / .pop) stores the configuration entry Y under
its own name.  The package does this at ~70 sites; the handful of deliberate renames is frozen in RENAMES.  A site that
stores entry Y under the name of ANOTHER known entry (copy-paste slip: booster_gain_min <- params['preamp_gain_min'])
is reported."""
import ast

RENAMES = {
    ('per_degree_pch_psd', 'per_degree_psd_out_mWperGHz'), ('per_degree_pch_psw', 'per_degree_psd_out_mWperSlotWidth'),
    ('impairments', 'impairment'), ('_raman_reference_frequency', 'reference_frequency'),
}


def sites(f):
    out = []
    for s in ast.walk(f.node):
        if isinstance(s, ast.Assign) and len(s.targets) == 1 and isinstance(s.targets[0], ast.Attribute) and \
                isinstance(s.targets[0].value, ast.Name) and s.targets[0].value.id == 'self':
            v = s.value
            key = None
            if isinstance(v, ast.Subscript) and isinstance(v.slice, ast.Constant) and isinstance(v.slice.value, str):
                key = v.slice.value
            elif isinstance(v, ast.Call) and isinstance(v.func, ast.Attribute) and v.func.attr in ('get', 'pop') and v.args and \
                    isinstance(v.args[0], ast.Constant) and isinstance(v.args[0].value, str):
                key = v.args[0].value
            if key is not None:
                out.append((s, s.targets[0].attr, key))
    return out


def field_key_rule(ctx, rule, classes, why):
    from .rules.common import site
    n = 0
    for cls in classes:
        for f in cls.all_funcs():
            ss = sites(f)
            names = {a for _, a, _ in ss} | {k for _, _, k in ss}
            for s, attr, key in ss:
                n += 1
                same = attr.lstrip('_') == key.lstrip('_') or attr.lstrip('_') == key.replace('-', '_')
                ok = same or (attr, key) in RENAMES
                ctx.check(rule, f'{site(f, s)} {attr}', ok, f'{f.qual}|field-key|{attr}|{key}',
                          f"self.{attr} is filled from the configuration entry '{key}': {why}", ast.unparse(s)[:120])
    return n


def export_pairs(to_json):
    """(key, value expression, node) written under 'params' by a to_json method: subscript stores and dict literal entries"""
    out = []
    # locals that stand for the 'params' sub-dict:  p = <dict>['params']
    aliases = {n.targets[0].id for n in ast.walk(to_json.node) if isinstance(n, ast.Assign) and len(n.targets) == 1 and
               isinstance(n.targets[0], ast.Name) and isinstance(n.value, ast.Subscript) and isinstance(n.value.slice, ast.Constant) and
               n.value.slice.value == 'params'}
    for n in ast.walk(to_json.node):
        if isinstance(n, ast.Assign) and isinstance(n.targets[0], ast.Subscript):
            t = n.targets[0]
            under_params = (isinstance(t.value, ast.Subscript) and isinstance(t.value.slice, ast.Constant) and t.value.slice.value == 'params') or \
                (isinstance(t.value, ast.Name) and t.value.id in aliases)
            if under_params and isinstance(t.slice, ast.Constant) and isinstance(t.slice.value, str):
                out.append((t.slice.value, n.value, n))
        elif isinstance(n, ast.Dict):
            for k, v in zip(n.keys, n.values):
                if isinstance(k, ast.Constant) and k.value == 'params' and isinstance(v, ast.Dict):
                    for k2, v2 in zip(v.keys, v.values):
                        if isinstance(k2, ast.Constant) and isinstance(k2.value, str):
                            out.append((k2.value, v2, v2))
    return out


def export_key_rule(ctx, rule, pairs, why):
    """what an element exports under key K is the attribute its loader fills from key K: follow self.A -> (self.A = self.params.B
    in __init__) -> (params class: self.B = kwargs[K'])  and require K' == K"""
    from .rules.common import site
    n = 0
    for el, pcs in pairs:
        tj = el.getters.get('to_json') or el.methods.get('to_json')
        init = el.methods.get('__init__')
        if tj is None or init is None:
            continue
        alias = {}
        for s in ast.walk(init.node):
            if isinstance(s, ast.Assign) and isinstance(s.targets[0], ast.Attribute) and isinstance(s.targets[0].value, ast.Name) and \
                    s.targets[0].value.id == 'self' and isinstance(s.value, ast.Attribute) and ast.unparse(s.value.value) == 'self.params':
                alias[s.targets[0].attr] = s.value.attr
        loader = {}
        for pc in pcs:
            for f in pc.all_funcs():
                for _, attr, key in sites(f):
                    loader.setdefault(attr.lstrip('_'), set()).add(key)
        for key, val, node in export_pairs(tj):
            a = None
            if isinstance(val, ast.Attribute) and isinstance(val.value, ast.Name) and val.value.id == 'self':
                a = alias.get(val.attr, val.attr)
            elif isinstance(val, ast.Attribute) and ast.unparse(val.value) == 'self.params':
                a = val.attr
            if a is None or a.lstrip('_') not in loader:
                continue
            n += 1
            ks = loader[a.lstrip('_')]
            ctx.check(rule, f'{site(tj, node)} {key}', key in ks, f'{tj.qual}|export-key|{key}|{a}',
                      f"the value loaded from {sorted(ks)} (attribute {a}) is exported under '{key}': {why}", ast.unparse(val)[:80])
    return n
