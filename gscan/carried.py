"""Loop-carried locals: variables that an iteration of a loop can READ before it has assigned them, although the loop body
assigns them - so the value seen is the one left by an earlier iteration.  For loops over independent work items (requests,
responses) such a variable is a channel from one item to the next.  Must-definition dataflow over one iteration of the CFG."""
import ast

from .cfg import CFG
from .model import walk_no_nested


def stored_names(code):
    out = set()
    if code is None:
        return out
    for n in [code] + list(walk_no_nested(code)) if isinstance(code, ast.AST) else []:
        if isinstance(n, ast.Name) and isinstance(n.ctx, (ast.Store, ast.Del)):
            out.add(n.id)
    return out


def node_defs(node):
    s = node.stmt
    if s is None:
        return set()
    if node.kind == 'iter' and isinstance(s, ast.For):
        return {x.id for x in ast.walk(s.target) if isinstance(x, ast.Name)}
    if node.kind == 'with' and isinstance(s, ast.With):
        return {x.id for it in s.items if it.optional_vars is not None for x in ast.walk(it.optional_vars) if isinstance(x, ast.Name)}
    if node.kind == 'test':
        return {x.target.id for x in ast.walk(node.expr) if isinstance(x, ast.NamedExpr) and isinstance(x.target, ast.Name)}
    if isinstance(s, (ast.Assign, ast.AugAssign, ast.AnnAssign, ast.Delete)):
        tg = s.targets if isinstance(s, (ast.Assign, ast.Delete)) else [s.target]
        return {x.id for t in tg for x in ast.walk(t) if isinstance(x, ast.Name) and isinstance(x.ctx, (ast.Store, ast.Del))}
    if isinstance(s, (ast.Import, ast.ImportFrom)):
        return {(a.asname or a.name).split('.')[0] for a in s.names}
    if isinstance(s, (ast.FunctionDef, ast.ClassDef)):
        return {s.name}
    return set()


def node_reads(node):
    """names read by the node's own code (comprehension / lambda locals excluded)"""
    code = node.code()
    if code is None or not isinstance(code, ast.AST) or node.kind not in ('stmt', 'test', 'iter', 'with', 'return', 'raise_stmt'):
        return {}
    if isinstance(code, (ast.Try, ast.If, ast.For, ast.While, ast.With)):
        return {}
    if isinstance(code, (ast.FunctionDef, ast.ClassDef, ast.AsyncFunctionDef)):
        return {}
    out = {}

    def rec(n, bound):
        if isinstance(n, (ast.ListComp, ast.SetComp, ast.GeneratorExp, ast.DictComp)):
            b = set(bound)
            for g in n.generators:
                rec(g.iter, b)
                b |= {x.id for x in ast.walk(g.target) if isinstance(x, ast.Name)}
                for i in g.ifs:
                    rec(i, b)
            for part in ([n.key, n.value] if isinstance(n, ast.DictComp) else [n.elt]):
                rec(part, b)
            return
        if isinstance(n, ast.Lambda):
            b = set(bound) | {a.arg for a in n.args.args + n.args.kwonlyargs}
            rec(n.body, b)
            return
        if isinstance(n, ast.Name) and isinstance(n.ctx, ast.Load) and n.id not in bound:
            out.setdefault(n.id, n)
        for c in ast.iter_child_nodes(n):
            rec(c, bound)
    if isinstance(node.stmt, ast.AugAssign) and isinstance(node.stmt.target, ast.Name):
        rec(node.stmt.value, set())          # x += e : an accumulator, its own old value does not count
    elif isinstance(node.stmt, ast.Assign) and node.kind == 'stmt':
        own = node_defs(node)
        rec(node.stmt.value, set())
        v = node.stmt.value
        arith = isinstance(v, ast.BinOp) and any(isinstance(o, ast.Name) and o.id in own for o in (v.left, v.right))
        for k in list(out):
            if k in own and arith:
                del out[k]                   # x = x + e : an accumulator; `x = e or x` / `x = e if c else x` keeps an OLD value: not excluded
        for t in node.stmt.targets:
            if not isinstance(t, ast.Name):
                rec(t, set())
    else:
        rec(code, set())
    return out


def carried(func, loop, g=None):
    """[(name, read node, CFG node)] : locals assigned in the loop body that an iteration can read before assigning them"""
    g = g or CFG(func.node)
    head = g.node_of(loop)
    if head is None:
        return []
    inside = {id(s) for st in loop.body for s in [st] + list(walk_no_nested(st))}
    body_ids = [n.id for n in g.nodes if n.stmt is not None and id(n.stmt) in inside]
    body = set(body_ids)
    assigned = set()
    for i in body_ids:
        assigned |= node_defs(g.nodes[i])
    handler_names = {h.name for st in loop.body for h in ast.walk(st) if isinstance(h, ast.ExceptHandler) and h.name}
    assigned -= handler_names
    loopvars = {x.id for x in ast.walk(loop.target) if isinstance(x, ast.Name)}
    TOP = None
    IN = {i: TOP for i in body_ids}
    OUT = {i: TOP for i in body_ids}
    changed = True
    while changed:
        changed = False
        for i in body_ids:
            preds = g.pred[i]
            acc = TOP
            for p in preds:
                if p == head.id:
                    val = set(loopvars)
                elif p in body:
                    val = OUT[p]
                    if val is TOP:
                        continue
                else:
                    continue
                acc = set(val) if acc is TOP else (acc & val)
            if acc is TOP:
                continue
            new_out = acc | node_defs(g.nodes[i])
            if IN[i] is TOP or IN[i] != acc or OUT[i] is TOP or OUT[i] != new_out:
                IN[i], OUT[i] = acc, new_out
                changed = True
    out = []
    seen = set()
    for i in body_ids:
        if IN[i] is TOP:
            continue
        for name, node in node_reads(g.nodes[i]).items():
            if name in assigned and name not in IN[i] and name not in loopvars and name not in seen:
                seen.add(name)
                out.append((name, node, g.nodes[i]))
    return out


# loops over independent work items: (module, function, how the loop is recognised)
ITEM_LOOPS = [
    ('gnpy.tools.json_io', 'requests_from_json', lambda f, lp: "'path-request'" in ast.unparse(lp.iter)),
    ('gnpy.topology.request', 'compute_path_with_disjunction', lambda f, lp: f.params[2] in {x.id for x in ast.walk(lp.iter) if isinstance(x, ast.Name)}),
    ('gnpy.topology.request', 'jsontocsv', lambda f, lp: "'response'" in ast.unparse(lp.iter)),
    ('gnpy.topology.spectrum_assignment', 'pth_assign_spectrum', lambda f, lp: f.params[1] in {x.id for x in ast.walk(lp.iter) if isinstance(x, ast.Name)}),
]


def carried_rule(ctx, rule, which, why):
    from .rules.common import site
    from .model import AnchorMissing
    repo = ctx.repo
    n = 0
    for mod, fname, pred in ITEM_LOOPS:
        if (mod, fname) not in which:
            continue
        f = repo.func(mod, fname)
        loops = [lp for lp in walk_no_nested(f.node) if isinstance(lp, ast.For) and getattr(lp, '_parent', None) is f.node and pred(f, lp)]
        if not loops:
            raise AnchorMissing(f'{mod}.{fname}: the loop over the work items')
        g = CFG(f.node)
        for lp in loops:
            n += 1
            c = carried(f, lp, g)
            ctx.check(rule, f'{site(f, lp)} loop over {ast.unparse(lp.iter)[:40]}', not c, f'{f.qual}|carried|{",".join(x[0] for x in c)}',
                      f'an iteration can read {[x[0] for x in c]} before assigning it, although the loop assigns it: the value comes from '
                      f'the PREVIOUS item: {why}',
                      '; '.join(f'{x[0]} read at line {x[1].lineno}' for x in c))
    return n
