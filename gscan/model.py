"""Program model of /repo/gnpy (DESIGN 2.1): modules, classes, functions, imports, MRO, call resolution.

Pure ast; nothing under /repo is imported or executed.
"""
import ast
import os
import glob


class AnchorMissing(Exception):
    """a construct a rule is anchored on no longer exists -> analysis error (exit 2), never a pass"""


class CannotAnalyse(Exception):
    """a construct outside the analysable fragment -> analysis error (exit 2), never a pass"""


class Func:
    def __init__(self, module, node, cls=None, kind='function'):
        self.module, self.node, self.cls, self.kind = module, node, cls, kind
        self.name = node.name
        self.qual = (f'{module.name}.{cls.name}.{node.name}' if cls else f'{module.name}.{node.name}')
        if kind == 'setter':
            self.qual += ':setter'
        self.file = module.rel

    @property
    def params(self):
        a = self.node.args
        return [x.arg for x in a.posonlyargs + a.args]

    @property
    def kwonly(self):
        return [x.arg for x in self.node.args.kwonlyargs]

    def defaults(self):
        a = self.node.args
        pos = a.posonlyargs + a.args
        out = {}
        for p, d in zip(pos[len(pos) - len(a.defaults):], a.defaults):
            out[p.arg] = d
        for p, d in zip(a.kwonlyargs, a.kw_defaults):
            if d is not None:
                out[p.arg] = d
        return out

    def loc(self, node=None):
        n = node if node is not None else self.node
        return f'{self.file}:{getattr(n, "lineno", self.node.lineno)}'

    def __repr__(self):
        return f'<Func {self.qual}>'


class Cls:
    def __init__(self, module, node):
        self.module, self.node, self.name = module, node, node.name
        self.qual = f'{module.name}.{node.name}'
        self.methods, self.getters, self.setters, self.statics = {}, {}, {}, set()
        self.class_assigns = {}
        self.bases = [ast.unparse(b) for b in node.bases]
        for m in node.body:
            if isinstance(m, (ast.FunctionDef, ast.AsyncFunctionDef)):
                kind = 'method'
                for d in m.decorator_list:
                    if isinstance(d, ast.Name) and d.id == 'property':
                        kind = 'getter'
                    elif (isinstance(d, ast.Name) and d.id == 'cached_property') or \
                            (isinstance(d, ast.Attribute) and d.attr == 'cached_property'):
                        kind = 'getter'         # read like a property; the caching is judged by gscan/memo.py
                    elif isinstance(d, ast.Attribute) and d.attr == 'setter':
                        kind = 'setter'
                    elif isinstance(d, ast.Name) and d.id in ('staticmethod', 'classmethod'):
                        self.statics.add(m.name) if d.id == 'staticmethod' else None
                f = Func(module, m, self, kind)
                if kind == 'getter':
                    self.getters[m.name] = f
                elif kind == 'setter':
                    self.setters[m.name] = f
                else:
                    self.methods[m.name] = f
                    if any(isinstance(d, ast.Name) and d.id == 'classmethod' for d in m.decorator_list):
                        f.kind = 'classmethod'
                    elif m.name in self.statics:
                        f.kind = 'staticmethod'
            elif isinstance(m, ast.Assign):
                for t in m.targets:
                    if isinstance(t, ast.Name):
                        self.class_assigns[t.id] = m.value
            elif isinstance(m, ast.AnnAssign) and isinstance(m.target, ast.Name):
                self.class_assigns[m.target.id] = m.value

    def all_funcs(self):
        return list(self.methods.values()) + list(self.getters.values()) + list(self.setters.values())


def clone(node):
    """structural copy of an AST node: fields and positions only - the parent links and analysis marks set on the program model
    are not followed (copy.deepcopy would copy the whole module through `_parent`)"""
    if isinstance(node, list):
        return [clone(x) for x in node]
    if not isinstance(node, ast.AST):
        return node
    new = type(node)()
    for f in node._fields:
        if hasattr(node, f):
            setattr(new, f, clone(getattr(node, f)))
    for a in ('lineno', 'col_offset', 'end_lineno', 'end_col_offset'):
        if hasattr(node, a):
            setattr(new, a, getattr(node, a))
    return new


class Module:
    def __init__(self, root, path, defer=False):
        self.path = path
        self.rel = os.path.relpath(path, root)
        self.name = self.rel[:-3].replace('/', '.')
        if self.name.endswith('.__init__'):
            self.name = self.name[:-9]
        with open(path, encoding='utf-8') as fh:
            self.source = fh.read()
        self.tree = ast.parse(self.source, filename=path)
        self.lines = self.source.splitlines()
        if not defer:
            self.shape1()
            self.finish()

    def shape1(self):
        """first phase of the canonical model (structure, helper inlining); Repo calls it once the purity of the package's own
        functions is known (computed on the parsed sources)"""
        if os.environ.get('GSCAN_NO_CANON') != '1':
            from .canon import shape
            self.tree = shape(self.tree, self.name)

    def finish(self):
        """second phase (after Repo has computed which of the package's functions are pure): temporaries, index, parent links"""
        if os.environ.get('GSCAN_NO_CANON') != '1':
            from .canon import shape_temps
            self.tree = shape_temps(self.tree)
        self.functions, self.classes, self.constants = {}, {}, {}
        self.imports = {}      # local name -> ('mod', modname) | ('obj', modname, objname)
        for n in self.tree.body:
            self._top(n)
        shared = (ast.expr_context, ast.operator, ast.boolop, ast.cmpop, ast.unaryop)     # singletons of the parser: no parent
        for n in ast.walk(self.tree):
            for c in ast.iter_child_nodes(n):
                if not isinstance(c, shared):
                    c._parent = n

    def _top(self, n):
        if isinstance(n, (ast.FunctionDef, ast.AsyncFunctionDef)):
            self.functions[n.name] = Func(self, n)
        elif isinstance(n, ast.ClassDef):
            self.classes[n.name] = Cls(self, n)
        elif isinstance(n, ast.Assign):
            for t in n.targets:
                if isinstance(t, ast.Name):
                    self.constants[t.id] = n.value
        elif isinstance(n, ast.AnnAssign) and isinstance(n.target, ast.Name) and n.value is not None:
            self.constants[n.target.id] = n.value
        elif isinstance(n, ast.Import):
            for a in n.names:
                self.imports[a.asname or a.name.split('.')[0]] = ('mod', a.name if a.asname else a.name.split('.')[0])
        elif isinstance(n, ast.ImportFrom):
            for a in n.names:
                self.imports[a.asname or a.name] = ('obj', n.module or '', a.name)
        elif isinstance(n, (ast.If, ast.Try)):
            for c in ast.iter_child_nodes(n):
                if isinstance(c, ast.stmt):
                    self._top(c)


class Repo:
    def __init__(self, root):
        self.root = root
        self.modules = {}
        files = sorted(glob.glob(os.path.join(root, 'gnpy', '**', '*.py'), recursive=True))
        if not files:
            raise AnchorMissing(f'no python sources under {root}/gnpy')
        for f in files:
            m = Module(root, f, defer=True)
            self.modules[m.name] = m
        if os.environ.get('GSCAN_NO_CANON') != '1':
            from . import canon
            canon.REPO_PURE_FUNCS, canon.REPO_PURE_METHODS = canon.purity([m.tree for m in self.modules.values()])
            self.pure_names = (sorted(canon.REPO_PURE_FUNCS), sorted(canon.REPO_PURE_METHODS))
        for m in self.modules.values():
            m.shape1()
        for m in self.modules.values():
            m.finish()
        self.class_index = {}
        for m in self.modules.values():
            for c in m.classes.values():
                self.class_index.setdefault(c.name, []).append(c)
        self.method_index = {}
        for m in self.modules.values():
            for c in m.classes.values():
                for f in c.methods.values():
                    self.method_index.setdefault(f.name, []).append(f)
        if os.environ.get('GSCAN_NO_CANON') != '1':
            from .canon import positional_calls
            positional_calls(self)

    # ---------------------------------------------------------------- anchors
    def module(self, name):
        if name not in self.modules:
            raise AnchorMissing(f'module {name}')
        return self.modules[name]

    def func(self, module, name):
        m = self.module(module)
        if name not in m.functions:
            raise AnchorMissing(f'function {module}.{name}')
        return m.functions[name]

    def cls(self, name, module=None):
        cands = self.class_index.get(name, [])
        if module:
            cands = [c for c in cands if c.module.name == module]
        if not cands:
            raise AnchorMissing(f'class {module + "." if module else ""}{name}')
        if len(cands) > 1:
            raise AnchorMissing(f'class {name} is ambiguous: {[c.qual for c in cands]}')
        return cands[0]

    def mro(self, cls):
        out, seen = [], set()

        def rec(c):
            if c.qual in seen:
                return
            seen.add(c.qual)
            out.append(c)
            for b in c.bases:
                bn = b.split('.')[-1]
                bc = self.resolve_class(c.module, bn)
                if bc is not None:
                    rec(bc)
        rec(cls)
        return out

    def resolve_class(self, module, name):
        if name in module.classes:
            return module.classes[name]
        imp = module.imports.get(name)
        if imp and imp[0] == 'obj' and imp[1] in self.modules:
            return self.modules[imp[1]].classes.get(imp[2])
        return None

    def method(self, cls, name, kind='method', required=True):
        c = cls if isinstance(cls, Cls) else self.cls(cls)
        for k in self.mro(c):
            d = {'method': k.methods, 'getter': k.getters, 'setter': k.setters}[kind]
            if name in d:
                return d[name]
        if required:
            raise AnchorMissing(f'{kind} {c.qual}.{name}')
        return None

    def subclasses(self, cls):
        c = cls if isinstance(cls, Cls) else self.cls(cls)
        out = []
        for m in self.modules.values():
            for k in m.classes.values():
                if k is not c and c in self.mro(k):
                    out.append(k)
        return out

    def all_funcs(self):
        for m in self.modules.values():
            for f in m.functions.values():
                yield f
            for c in m.classes.values():
                for f in c.all_funcs():
                    yield f

    # ---------------------------------------------------------------- resolution
    def resolve_name(self, module, name):
        """what a bare name denotes at module level: Func | Cls | ('module', Module) | ('const', expr) | None"""
        if name in module.functions:
            return module.functions[name]
        if name in module.classes:
            return module.classes[name]
        if name in module.constants:
            return ('const', module.constants[name], module)
        imp = module.imports.get(name)
        if imp:
            if imp[0] == 'mod':
                return ('module', self.modules[imp[1]]) if imp[1] in self.modules else None
            mod = self.modules.get(imp[1])
            if mod is None:
                full = f'{imp[1]}.{imp[2]}'
                if full in self.modules:
                    return ('module', self.modules[full])
                return None
            if imp[2] in mod.functions or imp[2] in mod.classes or imp[2] in mod.constants:
                return self.resolve_name(mod, imp[2])
            full = f'{imp[1]}.{imp[2]}'
            if full in self.modules:
                return ('module', self.modules[full])
            # re-exported import
            if imp[2] in mod.imports:
                return self.resolve_name(mod, imp[2])
        return None

    def resolve_call(self, func, call, self_cls=None, local_types=None):
        """callee of an ast.Call inside `func`: Func | Cls (constructor) | None.
        local_types: {local name: Cls} from annotations / isinstance guards / constructor calls."""
        f = call.func
        mod = func.module
        self_cls = self_cls or func.cls
        if isinstance(f, ast.Name):
            r = self.resolve_name(mod, f.id)
            if isinstance(r, (Func, Cls)):
                return r
            return None
        if isinstance(f, ast.Attribute):
            v = f.value
            if isinstance(v, ast.Name):
                if v.id in ('self', 'cls') and self_cls is not None:
                    return self.method(self_cls, f.attr, required=False)
                if local_types and v.id in local_types:
                    return self.method(local_types[v.id], f.attr, required=False)
                r = self.resolve_name(mod, v.id)
                if isinstance(r, tuple) and r[0] == 'module':
                    m2 = r[1]
                    if f.attr in m2.functions:
                        return m2.functions[f.attr]
                    if f.attr in m2.classes:
                        return m2.classes[f.attr]
                    return None
                if isinstance(r, Cls):
                    return self.method(r, f.attr, required=False)
            if isinstance(v, ast.Call) and isinstance(v.func, ast.Name) and v.func.id == 'super' and self_cls is not None:
                for k in self.mro(self_cls)[1:]:
                    if f.attr in k.methods:
                        return k.methods[f.attr]
                return None
            # unique-method-name fallback
            cands = self.method_index.get(f.attr, [])
            if len(cands) == 1:
                return cands[0]
        return None

    def callees_by_name(self, attr):
        """all repo methods named attr (for conservative over-approximation of x.attr())"""
        return list(self.method_index.get(attr, []))


# ---------------------------------------------------------------------------- small ast helpers
def walk_no_nested(node):
    """walk a function body in source (pre-)order without descending into nested function/class definitions"""
    stack = list(ast.iter_child_nodes(node))[::-1]
    while stack:
        n = stack.pop()
        yield n
        if isinstance(n, (ast.FunctionDef, ast.AsyncFunctionDef, ast.ClassDef, ast.Lambda)):
            continue
        stack.extend(list(ast.iter_child_nodes(n))[::-1])


def calls_in(node):
    return [n for n in walk_no_nested(node) if isinstance(n, ast.Call)] if not isinstance(node, ast.Call) else \
        [node] + [n for n in walk_no_nested(node) if isinstance(n, ast.Call)]


def call_name(call):
    f = call.func
    if isinstance(f, ast.Name):
        return f.id
    if isinstance(f, ast.Attribute):
        return f.attr
    return None


def norm(node):
    """normalised text of a construct (no line numbers, no formatting)"""
    return ast.unparse(node) if not isinstance(node, str) else node


def num_fraction(v):
    """exact decimal value of a python numeric literal (0.1 -> 1/10), None for inf/nan"""
    from fractions import Fraction
    if isinstance(v, int):
        return Fraction(v)
    r = repr(v)
    if 'inf' in r or 'nan' in r:
        return None
    return Fraction(r)


def const_fold(expr, module=None, repo=None, depth=0):
    """value of a literal numeric expression, following module constants; None if not a constant"""
    from fractions import Fraction
    if isinstance(expr, ast.Constant) and isinstance(expr.value, (int, float)) and not isinstance(expr.value, bool):
        return num_fraction(expr.value)
    if isinstance(expr, ast.UnaryOp) and isinstance(expr.op, ast.USub):
        v = const_fold(expr.operand, module, repo, depth)
        return -v if v is not None else None
    if isinstance(expr, ast.BinOp):
        a, b = const_fold(expr.left, module, repo, depth), const_fold(expr.right, module, repo, depth)
        if a is None or b is None:
            return None
        if isinstance(expr.op, ast.Add):
            return a + b
        if isinstance(expr.op, ast.Sub):
            return a - b
        if isinstance(expr.op, ast.Mult):
            return a * b
        if isinstance(expr.op, ast.Div):
            return a / b if b != 0 else None
        if isinstance(expr.op, ast.Pow) and b.denominator == 1 and abs(b) < 64:
            return a ** int(b)
        return None
    if isinstance(expr, ast.Name) and module is not None and repo is not None and depth < 4:
        r = repo.resolve_name(module, expr.id)
        if isinstance(r, tuple) and r[0] == 'const':
            return const_fold(r[1], r[2], repo, depth + 1)
    return None
