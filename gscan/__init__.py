"""gscan: repository-specific static analysis engine for oopt-gnpy (see /verif/DESIGN.md)."""
